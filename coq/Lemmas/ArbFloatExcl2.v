(* Validity of the derived Arbitrary of float newtypes (Sem/ArbFloat.v) for TWO bounds of which at
   least one is EXCLUSIVE, under decidable hypotheses on the two bound values only:
     S1   [L, U)   greater_or_equal = L, less = U
     S2   (L, U]   greater = L, less_or_equal = U
     S3   (L, U)   greater = L, less = U
   (each optionally with `finite`, in any order), and the converse witnesses
     S1'  the all-ones draw panics when the largest overshoot is not absorbed by one delta,
     S2'  the zero draw panics when the delta is absorbed at L,
   which turn S1 / S2 into exact characterisations of the hypothesis that matters.
   Notation: delta = correction_delta, range = |U - L|, xmax = L + 1.0 * range (the largest
   value L + u * range can take, u in [0,1], IEEE multiplication and addition being monotone). *)
From Coq Require Import ZArith Lia List Bool Reals Lra.
From NV Require Import Base.Util Base.IntTy Base.FloatBits Base.Float Base.Expr
     Macro.Surface Macro.Ast Sem.Guard Sem.Value Sem.Eval Sem.Bytes Sem.ArbFloat
     Lemmas.GuardLemmas Lemmas.FloatOrder Lemmas.ArbFloatLemmas Lemmas.ArbFloatValid Lemmas.ArbFloatExcl.
From Flocq Require Import Core IEEE754.BinarySingleNaN IEEE754.Binary IEEE754.Bits.
Local Open Scope Z_scope.

(* ====================================================================================== *)
(* 1. Generic layer on Flocq's binary_float (any format): monotonicity                    *)
(* ====================================================================================== *)

Section BinExcl2.
  Variable prec emax : Z.
  Context (prec_gt_0_ : Prec_gt_0 prec).
  Context (prec_lt_emax_ : Prec_lt_emax prec emax).
  Notation bf := (Binary.binary_float prec emax).
  Notation fexp := (SpecFloat.fexp prec emax).
  Notation rnd := (round radix2 fexp (round_mode mode_NE)).
  Notation B2R := (Binary.B2R prec emax).
  Notation is_finite := (Binary.is_finite prec emax).
  Notation is_nan := (Binary.is_nan prec emax).
  Notation Bsign := (Binary.Bsign prec emax).
  Notation Bcompare := (Binary.Bcompare prec emax).
  Notation Bplus := (Binary.Bplus prec emax prec_gt_0_ prec_lt_emax_).
  Notation Bminus := (Binary.Bminus prec emax prec_gt_0_ prec_lt_emax_).
  Notation Bmult := (Binary.Bmult prec emax prec_gt_0_ prec_lt_emax_).
  Notation Binf := (Binary.B754_infinity prec emax).
  Notation Bzero := (Binary.B754_zero prec emax).
  Notation Ble := (Ble prec emax).
  Notation Bplus_cases := (Bplus_cases prec emax prec_gt_0_ prec_lt_emax_).
  Notation Bminus_cases := (Bminus_cases prec emax prec_gt_0_ prec_lt_emax_).
  Notation rnd_B2R := (rnd_B2R prec emax).
  Notation rnd_le := (rnd_le prec emax prec_gt_0_).
  Notation rnd_0 := (rnd_0 prec emax).
  Notation Ble_finite := (Ble_finite prec emax).

  (* the direction of an overflow is the common sign of the operands *)
  Lemma Bplus_overflow_dir (x y : bf) : is_finite x = true -> is_finite y = true ->
    Bsign x = Bsign y -> (bpow radix2 emax <= Rabs (rnd (B2R x + B2R y)))%R ->
    if Bsign x then (rnd (B2R x + B2R y) <= - bpow radix2 emax)%R
    else (bpow radix2 emax <= rnd (B2R x + B2R y))%R.
  Proof.
    intros Fx Fy Hs Ho. pose proof (bpow_gt_0 radix2 emax) as Hpos.
    apply Rabs_ge_inv in Ho. destruct (Bsign x) eqn:E.
    - pose proof (Bsign_true_nonpos prec emax x Fx E) as Hx.
      pose proof (Bsign_true_nonpos prec emax y Fy (eq_sym Hs)) as Hy.
      assert (H0 : (rnd (B2R x + B2R y) <= 0)%R) by (rewrite <- rnd_0; apply rnd_le; lra).
      destruct Ho as [Ho|Ho]; lra.
    - pose proof (Bsign_false_nonneg prec emax x Fx E) as Hx.
      pose proof (Bsign_false_nonneg prec emax y Fy (eq_sym Hs)) as Hy.
      assert (H0 : (0 <= rnd (B2R x + B2R y))%R) by (rewrite <- rnd_0; apply rnd_le; lra).
      destruct Ho as [Ho|Ho]; lra.
  Qed.

  Lemma Bminus_overflow_dir (x y : bf) : is_finite x = true -> is_finite y = true ->
    Bsign x = negb (Bsign y) -> (bpow radix2 emax <= Rabs (rnd (B2R x - B2R y)))%R ->
    if Bsign x then (rnd (B2R x - B2R y) <= - bpow radix2 emax)%R
    else (bpow radix2 emax <= rnd (B2R x - B2R y))%R.
  Proof.
    intros Fx Fy Hs Ho. pose proof (bpow_gt_0 radix2 emax) as Hpos.
    apply Rabs_ge_inv in Ho. destruct (Bsign x) eqn:E.
    - pose proof (Bsign_true_nonpos prec emax x Fx E) as Hx.
      assert (Ey : Bsign y = false) by (destruct (Bsign y); [discriminate Hs | reflexivity]).
      pose proof (Bsign_false_nonneg prec emax y Fy Ey) as Hy.
      assert (H0 : (rnd (B2R x - B2R y) <= 0)%R) by (rewrite <- rnd_0; apply rnd_le; lra).
      destruct Ho as [Ho|Ho]; lra.
    - pose proof (Bsign_false_nonneg prec emax x Fx E) as Hx.
      assert (Ey : Bsign y = true) by (destruct (Bsign y); [reflexivity | discriminate Hs]).
      pose proof (Bsign_true_nonpos prec emax y Fy Ey) as Hy.
      assert (H0 : (0 <= rnd (B2R x - B2R y))%R) by (rewrite <- rnd_0; apply rnd_le; lra).
      destruct Ho as [Ho|Ho]; lra.
  Qed.

  Lemma B2R_rnd_lt (z : bf) (r : R) : B2R z = r -> (- bpow radix2 emax < r < bpow radix2 emax)%R.
  Proof. intros <-. apply Rabs_lt_inv. apply abs_B2R_lt_emax. Qed.

  (* rounded addition is monotone in its second operand, overflows included *)
  Lemma Bplus_mono_r nan (x y y' : bf) :
    is_finite x = true -> is_finite y = true -> is_finite y' = true -> (B2R y <= B2R y')%R ->
    Ble (Bplus nan mode_NE x y) (Bplus nan mode_NE x y') = true.
  Proof.
    intros Fx Fy Fy' Hle.
    assert (Hm : (rnd (B2R x + B2R y) <= rnd (B2R x + B2R y'))%R) by (apply rnd_le; lra).
    destruct (Bplus_cases nan x y Fx Fy) as [[F1 R1]|(I1 & S1 & O1)];
      destruct (Bplus_cases nan x y' Fx Fy') as [[F2 R2]|(I2 & S2 & O2)].
    - apply Ble_finite; [exact F1 | exact F2 | rewrite R1, R2; exact Hm].
    - pose proof (B2R_rnd_lt _ _ R1) as B1.
      pose proof (Bplus_overflow_dir x y' Fx Fy' S2 O2) as D2. rewrite I2.
      destruct (Bsign x); [exfalso; lra|]. apply Ble_to_pinf, finite_not_nan_B, F1.
    - pose proof (B2R_rnd_lt _ _ R2) as B2.
      pose proof (Bplus_overflow_dir x y Fx Fy S1 O1) as D1. rewrite I1.
      destruct (Bsign x); [|exfalso; lra]. apply Ble_ninf, finite_not_nan_B, F2.
    - rewrite I1, I2. destruct (Bsign x); reflexivity.
  Qed.

  (* rounded subtraction is monotone in its first operand *)
  Lemma Bminus_mono_l nan (x x' y : bf) :
    is_finite x = true -> is_finite x' = true -> is_finite y = true -> (B2R x <= B2R x')%R ->
    Ble (Bminus nan mode_NE x y) (Bminus nan mode_NE x' y) = true.
  Proof.
    intros Fx Fx' Fy Hle.
    assert (Hm : (rnd (B2R x - B2R y) <= rnd (B2R x' - B2R y))%R) by (apply rnd_le; lra).
    destruct (Bminus_cases nan x y Fx Fy) as [[F1 R1]|(I1 & S1 & O1)];
      destruct (Bminus_cases nan x' y Fx' Fy) as [[F2 R2]|(I2 & S2 & O2)].
    - apply Ble_finite; [exact F1 | exact F2 | rewrite R1, R2; exact Hm].
    - pose proof (B2R_rnd_lt _ _ R1) as B1.
      pose proof (Bminus_overflow_dir x' y Fx' Fy S2 O2) as D2. rewrite I2.
      destruct (Bsign x'); [exfalso; lra|]. apply Ble_to_pinf, finite_not_nan_B, F1.
    - pose proof (B2R_rnd_lt _ _ R2) as B2.
      pose proof (Bminus_overflow_dir x y Fx Fy S1 O1) as D1. rewrite I1.
      destruct (Bsign x); [|exfalso; lra]. apply Ble_ninf, finite_not_nan_B, F2.
    - pose proof (Bminus_overflow_dir x y Fx Fy S1 O1) as D1.
      pose proof (Bminus_overflow_dir x' y Fx' Fy S2 O2) as D2. rewrite I1, I2.
      pose proof (bpow_gt_0 radix2 emax) as Hpos.
      destruct (Bsign x), (Bsign x'); try reflexivity. exfalso; lra.
  Qed.

  (* a factor in [0,1] times a non-negative finite number: finite, and the rounded product *)
  Lemma Bmult_unit_R nan (u r : bf) : is_finite u = true -> is_finite r = true ->
    (0 <= B2R u <= 1)%R -> (0 <= B2R r)%R ->
    is_finite (Bmult nan mode_NE u r) = true /\ B2R (Bmult nan mode_NE u r) = rnd (B2R u * B2R r).
  Proof.
    intros Fu Fr Hu Hr. generalize (Bmult_correct prec emax prec_gt_0_ prec_lt_emax_ nan mode_NE u r).
    assert (H0 : (0 <= rnd (B2R u * B2R r))%R). { rewrite <- rnd_0. apply rnd_le. nra. }
    assert (H1 : (rnd (B2R u * B2R r) <= B2R r)%R).
    { apply Rle_trans with (rnd (B2R r)); [apply rnd_le; nra | rewrite rnd_B2R; lra]. }
    rewrite Rlt_bool_true.
    - intros (H2 & H3 & _). rewrite H3, Fu, Fr, H2. split; reflexivity.
    - rewrite Rabs_pos_eq by exact H0. pose proof (abs_B2R_lt_emax prec emax r) as H.
      rewrite Rabs_pos_eq in H by lra. lra.
  Qed.

  Lemma Bmult_unit_mono nan (u u' r : bf) :
    is_finite u = true -> is_finite u' = true -> is_finite r = true ->
    (0 <= B2R u)%R -> (B2R u <= B2R u')%R -> (B2R u' <= 1)%R -> (0 <= B2R r)%R ->
    is_finite (Bmult nan mode_NE u r) = true /\ is_finite (Bmult nan mode_NE u' r) = true /\
    (0 <= B2R (Bmult nan mode_NE u r) <= B2R (Bmult nan mode_NE u' r))%R.
  Proof.
    intros Fu Fu' Fr H0 H1 H2 Hr.
    destruct (Bmult_unit_R nan u r Fu Fr ltac:(lra) Hr) as [F1 R1].
    destruct (Bmult_unit_R nan u' r Fu' Fr ltac:(lra) Hr) as [F2 R2].
    split; [exact F1|]. split; [exact F2|]. rewrite R1, R2. split.
    - rewrite <- rnd_0. apply rnd_le. nra.
    - apply rnd_le. nra.
  Qed.

  (* y + (a zero of either sign) is y (up to the sign of zero) *)
  Lemma Bplus_zero_r nan (a y : bf) : is_finite a = true -> is_finite y = true -> B2R a = 0%R ->
    is_finite (Bplus nan mode_NE y a) = true /\ B2R (Bplus nan mode_NE y a) = B2R y.
  Proof.
    intros Fa Fy Ha. destruct (Bplus_cases nan y a Fy Fa) as [[F1 R1]|(_ & _ & O1)].
    - split; [exact F1|]. rewrite R1, Ha, Rplus_0_r. apply rnd_B2R.
    - exfalso. rewrite Ha, Rplus_0_r, rnd_B2R in O1.
      pose proof (abs_B2R_lt_emax prec emax y). lra.
  Qed.

  (* x above a finite number, x - y strictly below a finite number: x is finite *)
  Lemma Bminus_lt_finite_inv nan (l x y u : bf) :
    is_finite l = true -> is_finite y = true -> is_finite u = true -> is_nan x = false ->
    Ble l x = true -> Bcompare (Bminus nan mode_NE x y) u = Some Lt -> is_finite x = true.
  Proof.
    intros Fl Fy Fu Nx Hl Hlt.
    destruct x as [s|[|]|s pl H|s m e H]; try reflexivity; exfalso.
    - destruct l as [?|?|? ? ?|[|] ? ? ?]; cbn in *; discriminate.
    - destruct y as [?|?|? ? ?|? ? ? ?]; try discriminate Fy;
        destruct u as [?|?|? ? ?|[|] ? ? ?]; try discriminate Fu; cbn in Hlt; discriminate Hlt.
    - discriminate Nx.
  Qed.

  (* x - y is not a NaN for a non-NaN x and a finite y *)
  Lemma Bminus_not_nan_l nan (x y : bf) : is_nan x = false -> is_finite y = true ->
    is_nan (Bminus nan mode_NE x y) = false.
  Proof.
    intros Nx Fy. destruct (is_finite x) eqn:Fx.
    - apply (Bminus_not_nan prec emax prec_gt_0_ prec_lt_emax_); assumption.
    - destruct x as [s|s|s pl H|s m e H]; try discriminate Fx; try discriminate Nx.
      destruct y as [?|?|? ? ?|? ? ? ?]; try discriminate Fy; destruct s; reflexivity.
  Qed.
End BinExcl2.

(* ====================================================================================== *)
(* 2. The two formats, on bit patterns                                                    *)
(* ====================================================================================== *)

(* the bit pattern of 1.0 *)
Definition f_one (is64 : bool) : Z := if is64 then 4607182418800017408 else 1065353216.

Lemma b64_of_bits_one : b64_of_bits 4607182418800017408 = Binary.Bone 53 1024 eq_refl eq_refl.
Proof. apply B2FF_inj. vm_compute. reflexivity. Qed.
Lemma b32_of_bits_one : b32_of_bits 1065353216 = Binary.Bone 24 128 eq_refl eq_refl.
Proof. apply B2FF_inj. vm_compute. reflexivity. Qed.

Lemma f_one_spec (is64 : bool) : f_is_finite is64 (f_one is64) = true /\ f_real is64 (f_one is64) = 1%R.
Proof.
  unfold f_is_finite, f_real, f_one. destruct is64.
  - rewrite b64_of_bits_one. split; [apply is_finite_Bone | apply Bone_correct].
  - rewrite b32_of_bits_one. split; [apply is_finite_Bone | apply Bone_correct].
Qed.

Lemma f_le_real (is64 : bool) (x y : Z) : f_is_finite is64 x = true -> f_is_finite is64 y = true ->
  (f_le is64 x y = true <-> (f_real is64 x <= f_real is64 y)%R).
Proof.
  rewrite f_le_B. unfold f_is_finite, f_real. destruct is64; apply Ble_finite.
Qed.

Lemma f_mul_unit_mono (is64 : bool) (u u' r : Z) :
  f_is_finite is64 u = true -> f_is_finite is64 u' = true -> f_is_finite is64 r = true ->
  (0 <= f_real is64 u)%R -> (f_real is64 u <= f_real is64 u')%R -> (f_real is64 u' <= 1)%R ->
  (0 <= f_real is64 r)%R ->
  f_is_finite is64 (f_mul is64 u r) = true /\ f_is_finite is64 (f_mul is64 u' r) = true /\
  (0 <= f_real is64 (f_mul is64 u r) <= f_real is64 (f_mul is64 u' r))%R.
Proof.
  unfold f_is_finite, f_real, f_mul, f_binop. destruct is64.
  - rewrite !b64_of_bits_of_b64. unfold b64_mult. apply Bmult_unit_mono.
  - rewrite !b32_of_bits_of_b32. unfold b32_mult. apply Bmult_unit_mono.
Qed.

Lemma f_add_mono_r (is64 : bool) (x y y' : Z) :
  f_is_finite is64 x = true -> f_is_finite is64 y = true -> f_is_finite is64 y' = true ->
  (f_real is64 y <= f_real is64 y')%R ->
  f_le is64 (f_add is64 x y) (f_add is64 x y') = true.
Proof.
  rewrite f_le_B. unfold f_is_finite, f_real, f_add, f_binop. destruct is64.
  - rewrite !b64_of_bits_of_b64. unfold b64_plus. apply Bplus_mono_r.
  - rewrite !b32_of_bits_of_b32. unfold b32_plus. apply Bplus_mono_r.
Qed.

Lemma f_sub_mono_l (is64 : bool) (x x' y : Z) :
  f_is_finite is64 x = true -> f_is_finite is64 x' = true -> f_is_finite is64 y = true ->
  f_le is64 x x' = true ->
  f_le is64 (f_sub is64 x y) (f_sub is64 x' y) = true.
Proof.
  intros Fx Fx' Fy H. apply (f_le_real is64 x x' Fx Fx') in H. revert Fx Fx' Fy H.
  rewrite f_le_B. unfold f_is_finite, f_real, f_sub, f_binop. destruct is64.
  - rewrite !b64_of_bits_of_b64. unfold b64_minus. apply Bminus_mono_l.
  - rewrite !b32_of_bits_of_b32. unfold b32_minus. apply Bminus_mono_l.
Qed.

Lemma f_sub_lt_finite_inv (is64 : bool) (l x y u : Z) :
  f_is_finite is64 l = true -> f_is_finite is64 y = true -> f_is_finite is64 u = true ->
  f_is_nan is64 x = false -> f_le is64 l x = true -> f_lt is64 (f_sub is64 x y) u = true ->
  f_is_finite is64 x = true.
Proof.
  intros Fl Fy Fu Nx Hl Hlt. apply f_lt_iff in Hlt. revert Fl Fy Fu Nx Hl Hlt.
  rewrite f_le_B. unfold fcmp, f_is_finite, f_is_nan, f_sub, f_binop. destruct is64.
  - rewrite !b64_of_bits_of_b64. unfold b64_compare, b64_minus. apply Bminus_lt_finite_inv.
  - rewrite !b32_of_bits_of_b32. unfold b32_compare, b32_minus. apply Bminus_lt_finite_inv.
Qed.

Lemma f_sub_not_nan_l (is64 : bool) (x y : Z) :
  f_is_nan is64 x = false -> f_is_finite is64 y = true -> f_is_nan is64 (f_sub is64 x y) = false.
Proof.
  unfold f_is_finite, f_is_nan, f_sub, f_binop. destruct is64; intros Nx Fy.
  - rewrite b64_of_bits_of_b64. unfold b64_minus. apply Bminus_not_nan_l; assumption.
  - rewrite b32_of_bits_of_b32. unfold b32_minus. apply Bminus_not_nan_l; assumption.
Qed.

(* L + (+0.0 or -0.0) is IEEE-equal to L *)
Lemma f_add_zero_r_eq (is64 : bool) (a L : Z) :
  f_is_finite is64 a = true -> f_real is64 a = 0%R -> f_is_finite is64 L = true ->
  fcmp is64 (f_add is64 L a) L = Some Eq.
Proof.
  unfold fcmp, f_is_finite, f_real, f_add, f_binop. destruct is64; intros Fa Ra FL.
  - rewrite b64_of_bits_of_b64. unfold b64_compare, b64_plus.
    match goal with |- Binary.Bcompare _ _ (Binary.Bplus _ _ ?p1 ?p2 ?nan _ _ _) _ = _ =>
      destruct (Bplus_zero_r 53 1024 p1 p2 nan _ _ Fa FL Ra) as [F R] end.
    apply Bcompare_Eq_of_R; assumption.
  - rewrite b32_of_bits_of_b32. unfold b32_compare, b32_plus.
    match goal with |- Binary.Bcompare _ _ (Binary.Bplus _ _ ?p1 ?p2 ?nan _ _ _) _ = _ =>
      destruct (Bplus_zero_r 24 128 p1 p2 nan _ _ Fa FL Ra) as [F R] end.
    apply Bcompare_Eq_of_R; assumption.
Qed.

(* ---- order bookkeeping ------------------------------------------------------------------ *)

Lemma f_lt_le (is64 : bool) (x y : Z) : f_lt is64 x y = true -> f_le is64 x y = true.
Proof. unfold f_lt, f_le. destruct (fcmp is64 x y) as [[| |]|]; congruence. Qed.

Lemma f_ge_false_lt (is64 : bool) (x y : Z) : f_is_nan is64 x = false -> f_is_nan is64 y = false ->
  f_ge is64 x y = false -> f_lt is64 x y = true.
Proof.
  intros Nx Ny. destruct (fcmp_total is64 x y Nx Ny) as [c Hc]. unfold f_ge, f_lt. rewrite Hc.
  destruct c; congruence.
Qed.

Lemma f_gt_false_le (is64 : bool) (x y : Z) : f_is_nan is64 x = false -> f_is_nan is64 y = false ->
  f_gt is64 x y = false -> f_le is64 x y = true.
Proof.
  intros Nx Ny. destruct (fcmp_total is64 x y Nx Ny) as [c Hc]. unfold f_gt, f_le. rewrite Hc.
  destruct c; congruence.
Qed.

Lemma f_le_false_gt (is64 : bool) (x y : Z) : f_is_nan is64 x = false -> f_is_nan is64 y = false ->
  f_le is64 x y = false -> f_gt is64 x y = true.
Proof.
  intros Nx Ny. destruct (fcmp_total is64 x y Nx Ny) as [c Hc]. unfold f_gt, f_le. rewrite Hc.
  destruct c; congruence.
Qed.

Lemma f_lt_false_ge (is64 : bool) (x y : Z) : f_is_nan is64 x = false -> f_is_nan is64 y = false ->
  f_lt is64 x y = false -> f_ge is64 x y = true.
Proof.
  intros Nx Ny. destruct (fcmp_total is64 x y Nx Ny) as [c Hc]. unfold f_ge, f_lt. rewrite Hc.
  destruct c; congruence.
Qed.

Lemma f_gt_lt_swap (is64 : bool) (x y : Z) : f_gt is64 x y = f_lt is64 y x.
Proof.
  unfold f_gt, f_lt. destruct (fcmp is64 x y) as [c|] eqn:E.
  - rewrite (fcmp_antisym is64 x y c E). destruct c; reflexivity.
  - assert (E' : fcmp is64 y x = None) by (apply fcmp_none_iff; apply fcmp_none_iff in E; tauto).
    rewrite E'. reflexivity.
Qed.

Lemma f_le_refl (is64 : bool) (x : Z) : f_is_nan is64 x = false -> f_le is64 x x = true.
Proof. intros N. unfold f_le. rewrite (fcmp_refl is64 x N). reflexivity. Qed.

(* x <= l and l <= x: IEEE-equal *)
Lemma f_le_antisym_eq (is64 : bool) (x l : Z) :
  f_le is64 x l = true -> f_le is64 l x = true -> fcmp is64 x l = Some Eq.
Proof.
  unfold f_le. destruct (fcmp is64 x l) as [c|] eqn:E; [|discriminate].
  rewrite (fcmp_antisym is64 x l c E). destruct c; cbn; congruence.
Qed.

(* ====================================================================================== *)
(* 3. The scaled value L + u * range                                                      *)
(* ====================================================================================== *)

(* the largest value the scaled draw can take: L + 1.0 * |U - L| *)
Definition f_xmax (is64 : bool) (L U : Z) : Z :=
  f_add is64 L (f_mul is64 (f_one is64) (fb_abs is64 (f_sub is64 U L))).

(* the generator's value for two bounds, as a function of the unit draw *)
Definition scaled (is64 : bool) (L U u : Z) : Z :=
  f_add is64 L (f_mul is64 u (fb_abs is64 (f_sub is64 U L))).

Lemma f_xmax_scaled (is64 : bool) (L U : Z) : f_xmax is64 L U = scaled is64 L U (f_one is64).
Proof. reflexivity. Qed.

Lemma from0to1_fst (is64 : bool) (bs : bytes) :
  fst (from0to1 is64 bs) =
  f_div is64 (f_of_Z is64 (fst (arb_uint (fsize is64) bs))) (f_of_Z is64 (uint_max is64)).
Proof. unfold from0to1. destruct (arb_uint (fsize is64) bs) as [n r]. reflexivity. Qed.

Lemma arb_float_inner_two (is64 : bool) (d : decl) (vs : list validator) (bs : bytes) (lo hi : fbound) :
  fboundaries d vs None None = (Some lo, Some hi) ->
  arb_float_inner is64 d vs bs =
  Some (adjust_upper is64 hi (adjust_lower is64 lo
          (scaled is64 (fb_val lo) (fb_val hi) (fst (from0to1 is64 bs))))).
Proof.
  intros Hb. unfold arb_float_inner. rewrite Hb. destruct (from0to1 is64 bs) as [u r]. reflexivity.
Qed.

(* L <= L + u * range <= xmax for every unit draw; xmax is not a NaN *)
Lemma scaled_bounds (is64 : bool) (L U u : Z) :
  f_is_finite is64 (f_sub is64 U L) = true ->
  f_is_finite is64 u = true -> (0 <= f_real is64 u <= 1)%R ->
  f_le is64 L (scaled is64 L U u) = true /\
  f_le is64 (scaled is64 L U u) (f_xmax is64 L U) = true /\
  f_is_nan is64 (f_xmax is64 L U) = false.
Proof.
  intros Hrange Fu Ru. unfold scaled, f_xmax.
  destruct (f_sub_finite_inv is64 U L Hrange) as [HU HL].
  destruct (f_one_spec is64) as [F1 R1].
  destruct (f_abs_spec is64 (f_sub is64 U L)) as (_ & A2 & _ & A4).
  set (range := fb_abs is64 (f_sub is64 U L)) in *.
  assert (Fr : f_is_finite is64 range = true) by (rewrite A2; exact Hrange).
  destruct (f_mul_unit_mono is64 u (f_one is64) range Fu F1 Fr ltac:(lra) ltac:(lra) ltac:(lra) (A4 Hrange))
    as (Fp & Fm & Rp).
  split; [|split].
  - rewrite <- f_ge_le_swap.
    apply f_add_ge_left; [exact HL | apply finite_not_nan; exact Fp | apply f_ge0_of_real; [exact Fp | lra]].
  - apply f_add_mono_r; [exact HL | exact Fp | exact Fm | lra].
  - apply f_add_not_nan; assumption.
Qed.

Lemma scaled_bounds_draw (is64 : bool) (L U : Z) (bs : bytes) :
  bytes_ok bs = true -> f_is_finite is64 (f_sub is64 U L) = true ->
  f_le is64 L (scaled is64 L U (fst (from0to1 is64 bs))) = true /\
  f_le is64 (scaled is64 L U (fst (from0to1 is64 bs))) (f_xmax is64 L U) = true /\
  f_is_nan is64 (f_xmax is64 L U) = false.
Proof.
  intros Hok Hrange. rewrite from0to1_fst.
  destruct (f_unit_ratio is64 _ (arb_uint_fsize_bound is64 bs Hok)) as [Fu Ru].
  apply scaled_bounds; assumption.
Qed.

(* ====================================================================================== *)
(* 4. The adjustments, on an abstract scaled value x0 with L <= x0 <= xmax                *)
(* ====================================================================================== *)

Section Cores.
  Variable is64 : bool.
  Variables L U x0 xm : Z.
  Notation dl := (correction_delta is64).
  Hypothesis HL : f_is_finite is64 L = true.
  Hypothesis HU : f_is_finite is64 U = true.
  Hypothesis Hlo : f_le is64 L x0 = true.

  (* S1 core: [L, U) *)
  Lemma adjust_incl_excl :
    f_le is64 x0 xm = true -> f_is_nan is64 xm = false ->
    f_le is64 L (f_sub is64 U dl) = true ->
    f_lt is64 (f_sub is64 xm dl) U = true ->
    let x := adjust_upper is64 {| fb_val := U; fb_incl := false |}
               (adjust_lower is64 {| fb_val := L; fb_incl := true |} x0) in
    f_le is64 L x = true /\ f_lt is64 x U = true.
  Proof.
    intros Hhi Nxm H1 H2. unfold adjust_lower, adjust_upper. cbn [fb_incl fb_val]. cbv zeta.
    pose proof (delta_finite is64) as Fd.
    assert (Fxm : f_is_finite is64 xm = true).
    { apply (f_sub_lt_finite_inv is64 L xm dl U HL Fd HU Nxm); [|exact H2].
      exact (fcmp_le_trans is64 L x0 xm Hlo Hhi). }
    assert (Fx0 : f_is_finite is64 x0 = true) by exact (f_between_finite is64 L x0 xm HL Fxm Hlo Hhi).
    destruct (f_ge is64 x0 U) eqn:G.
    - rewrite f_ge_le_swap in G.
      pose proof (f_sub_mono_l is64 U x0 dl HU Fx0 Fd G) as M1.
      pose proof (f_sub_mono_l is64 x0 xm dl Fx0 Fxm Fd Hhi) as M2.
      split.
      + exact (fcmp_le_trans is64 _ _ _ H1 M1).
      + exact (proj1 (fcmp_le_lt_trans is64 _ _ _) M2 H2).
    - split; [exact Hlo|].
      apply f_ge_false_lt; [apply finite_not_nan; exact Fx0 | apply finite_not_nan; exact HU | exact G].
  Qed.

  (* S2 core: (L, U] *)
  Lemma adjust_excl_incl :
    f_lt is64 L U = true ->
    f_gt is64 (f_add is64 L dl) L = true ->
    let x := adjust_upper is64 {| fb_val := U; fb_incl := true |}
               (adjust_lower is64 {| fb_val := L; fb_incl := false |} x0) in
    f_lt is64 L x = true /\ f_le is64 x U = true.
  Proof.
    intros HLU Hd. unfold adjust_lower, adjust_upper. cbn [fb_incl fb_val]. cbv zeta.
    pose proof (delta_finite is64) as Fd.
    pose proof (finite_not_nan is64 U HU) as NU. pose proof (finite_not_nan is64 L HL) as NL.
    destruct (f_le_not_nan is64 L x0 Hlo) as [_ Nx0].
    destruct (f_le is64 x0 L) eqn:E.
    - pose proof (f_le_antisym_eq is64 x0 L E Hlo) as Eq0.
      assert (Fx0 : f_is_finite is64 x0 = true) by exact (f_between_finite is64 L x0 L HL HL Hlo E).
      pose proof (fun z => f_add_eq_congr is64 x0 L dl z HL Fd Eq0) as Hc.
      pose proof (f_add_not_nan is64 x0 dl Fx0 Fd) as Nx1.
      set (x1 := f_add is64 x0 dl) in *.
      destruct (f_gt is64 x1 U) eqn:G.
      + split; [exact HLU | apply f_le_refl; exact NU].
      + split; [|apply f_gt_false_le; assumption].
        rewrite <- f_gt_lt_swap. unfold f_gt. rewrite Hc. exact Hd.
    - pose proof (f_le_false_gt is64 x0 L Nx0 NL E) as Hgt. rewrite f_gt_lt_swap in Hgt.
      destruct (f_gt is64 x0 U) eqn:G.
      + split; [exact HLU | apply f_le_refl; exact NU].
      + split; [exact Hgt | apply f_gt_false_le; assumption].
  Qed.

  (* S3 core: (L, U) *)
  Lemma adjust_excl_excl :
    f_le is64 x0 xm = true -> f_is_nan is64 xm = false ->
    f_lt is64 L (f_sub is64 U dl) = true ->
    f_lt is64 (f_sub is64 xm dl) U = true ->
    f_gt is64 (f_add is64 L dl) L = true ->
    f_lt is64 (f_add is64 L dl) U = true ->
    let x := adjust_upper is64 {| fb_val := U; fb_incl := false |}
               (adjust_lower is64 {| fb_val := L; fb_incl := false |} x0) in
    f_lt is64 L x = true /\ f_lt is64 x U = true.
  Proof.
    intros Hhi Nxm H1 H2 Hd Hd2. unfold adjust_lower. cbn [fb_incl fb_val]. cbv zeta.
    pose proof (delta_finite is64) as Fd.
    pose proof (finite_not_nan is64 U HU) as NU. pose proof (finite_not_nan is64 L HL) as NL.
    destruct (f_le_not_nan is64 L x0 Hlo) as [_ Nx0].
    destruct (f_le is64 x0 L) eqn:E.
    - pose proof (f_le_antisym_eq is64 x0 L E Hlo) as Eq0.
      pose proof (fun z => f_add_eq_congr is64 x0 L dl z HL Fd Eq0) as Hc.
      set (x1 := f_add is64 x0 dl) in *.
      assert (Hlt : f_lt is64 x1 U = true) by (unfold f_lt; rewrite Hc; exact Hd2).
      assert (G : f_ge is64 x1 U = false).
      { revert Hlt. unfold f_lt, f_ge. destruct (fcmp is64 x1 U) as [[| |]|]; congruence. }
      unfold adjust_upper. cbn [fb_incl fb_val]. rewrite G.
      split; [|exact Hlt]. rewrite <- f_gt_lt_swap. unfold f_gt. rewrite Hc. exact Hd.
    - pose proof (f_le_false_gt is64 x0 L Nx0 NL E) as Hgt. rewrite f_gt_lt_swap in Hgt.
      destruct (adjust_incl_excl Hhi Nxm (f_lt_le is64 _ _ H1) H2) as [_ Hup].
      unfold adjust_lower in Hup. cbn [fb_incl fb_val] in Hup. cbv zeta in Hup.
      split; [|exact Hup].
      unfold adjust_upper. cbn [fb_incl fb_val].
      destruct (f_ge is64 x0 U) eqn:G; [|exact Hgt].
      rewrite f_ge_le_swap in G.
      assert (Fxm : f_is_finite is64 xm = true).
      { apply (f_sub_lt_finite_inv is64 L xm dl U HL Fd HU Nxm); [|exact H2].
        exact (fcmp_le_trans is64 L x0 xm Hlo Hhi). }
      assert (Fx0 : f_is_finite is64 x0 = true) by exact (f_between_finite is64 L x0 xm HL Fxm Hlo Hhi).
      pose proof (f_sub_mono_l is64 U x0 dl HU Fx0 Fd G) as M1.
      exact (proj2 (fcmp_le_lt_trans is64 _ _ _) H1 M1).
  Qed.
End Cores.

(* ====================================================================================== *)
(* 5. S1 / S2 / S3 on the inner value                                                     *)
(* ====================================================================================== *)

(* S1, inner value: [L, U) *)
Theorem arb_float_inner_incl_excl (is64 : bool) (d : decl) (vs : list validator) (bs : bytes) (L U : Z) :
  fboundaries d vs None None =
    (Some {| fb_val := L; fb_incl := true |}, Some {| fb_val := U; fb_incl := false |}) ->
  bytes_ok bs = true ->
  f_is_finite is64 (f_sub is64 U L) = true ->
  f_le is64 L (f_sub is64 U (correction_delta is64)) = true ->
  f_lt is64 (f_sub is64 (f_xmax is64 L U) (correction_delta is64)) U = true ->
  exists x, arb_float_inner is64 d vs bs = Some x /\
            f_le is64 L x = true /\ f_lt is64 x U = true /\ f_is_finite is64 x = true.
Proof.
  intros Hb Hok Hrange H1 H2. rewrite (arb_float_inner_two is64 d vs bs _ _ Hb). cbn [fb_val].
  destruct (f_sub_finite_inv is64 U L Hrange) as [HU HL].
  destruct (scaled_bounds_draw is64 L U bs Hok Hrange) as (Hlo & Hhi & Nxm).
  destruct (adjust_incl_excl is64 L U _ _ HL HU Hlo Hhi Nxm H1 H2) as [A B].
  eexists. split; [reflexivity|]. split; [exact A|]. split; [exact B|].
  exact (f_between_finite is64 L _ U HL HU A (f_lt_le is64 _ _ B)).
Qed.

(* S2, inner value: (L, U] *)
Theorem arb_float_inner_excl_incl (is64 : bool) (d : decl) (vs : list validator) (bs : bytes) (L U : Z) :
  fboundaries d vs None None =
    (Some {| fb_val := L; fb_incl := false |}, Some {| fb_val := U; fb_incl := true |}) ->
  bytes_ok bs = true ->
  f_is_finite is64 (f_sub is64 U L) = true ->
  f_lt is64 L U = true ->
  f_gt is64 (f_add is64 L (correction_delta is64)) L = true ->
  exists x, arb_float_inner is64 d vs bs = Some x /\
            f_lt is64 L x = true /\ f_le is64 x U = true /\ f_is_finite is64 x = true.
Proof.
  intros Hb Hok Hrange HLU Hd. rewrite (arb_float_inner_two is64 d vs bs _ _ Hb). cbn [fb_val].
  destruct (f_sub_finite_inv is64 U L Hrange) as [HU HL].
  destruct (scaled_bounds_draw is64 L U bs Hok Hrange) as (Hlo & Hhi & Nxm).
  destruct (adjust_excl_incl is64 L U _ HL HU Hlo HLU Hd) as [A B].
  eexists. split; [reflexivity|]. split; [exact A|]. split; [exact B|].
  exact (f_between_finite is64 L _ U HL HU (f_lt_le is64 _ _ A) B).
Qed.

(* S3, inner value: (L, U) *)
Theorem arb_float_inner_excl_excl (is64 : bool) (d : decl) (vs : list validator) (bs : bytes) (L U : Z) :
  fboundaries d vs None None =
    (Some {| fb_val := L; fb_incl := false |}, Some {| fb_val := U; fb_incl := false |}) ->
  bytes_ok bs = true ->
  f_is_finite is64 (f_sub is64 U L) = true ->
  f_lt is64 L (f_sub is64 U (correction_delta is64)) = true ->
  f_lt is64 (f_sub is64 (f_xmax is64 L U) (correction_delta is64)) U = true ->
  f_gt is64 (f_add is64 L (correction_delta is64)) L = true ->
  f_lt is64 (f_add is64 L (correction_delta is64)) U = true ->
  exists x, arb_float_inner is64 d vs bs = Some x /\
            f_lt is64 L x = true /\ f_lt is64 x U = true /\ f_is_finite is64 x = true.
Proof.
  intros Hb Hok Hrange H1 H2 Hd Hd2. rewrite (arb_float_inner_two is64 d vs bs _ _ Hb). cbn [fb_val].
  destruct (f_sub_finite_inv is64 U L Hrange) as [HU HL].
  destruct (scaled_bounds_draw is64 L U bs Hok Hrange) as (Hlo & Hhi & Nxm).
  destruct (adjust_excl_excl is64 L U _ _ HL HU Hlo Hhi Nxm H1 H2 Hd Hd2) as [A B].
  eexists. split; [reflexivity|]. split; [exact A|]. split; [exact B|].
  exact (f_between_finite is64 L _ U HL HU (f_lt_le is64 _ _ A) (f_lt_le is64 _ _ B)).
Qed.

(* ====================================================================================== *)
(* 6. S1 / S2 / S3 lifted to [arb_float]                                                  *)
(* ====================================================================================== *)

Section Checks.
  Variable lib : fnlib.
  Variable d : decl.
  Variable is64 : bool.
  Hypothesis Hf : d_family d = FFloat is64.

  Lemma check_finite_ok (x : Z) : f_is_finite is64 x = true -> check_of lib d VFinite (VF x) = None.
  Proof. intros H. unfold check_of. rewrite Hf, H. reflexivity. Qed.

  Lemma check_ge_ok (b : bound) (x : Z) :
    f_le is64 (bval d b) x = true -> check_of lib d (VGreaterOrEqual b) (VF x) = None.
  Proof.
    intros H. unfold check_of. rewrite Hf. apply fail_none. rewrite <- f_ge_le_swap in H.
    revert H. unfold f_ge, f_lt. destruct (fcmp is64 x (bval d b)) as [[| |]|]; congruence.
  Qed.

  Lemma check_gt_ok (b : bound) (x : Z) :
    f_lt is64 (bval d b) x = true -> check_of lib d (VGreater b) (VF x) = None.
  Proof.
    intros H. unfold check_of. rewrite Hf. apply fail_none. rewrite <- f_gt_lt_swap in H.
    revert H. unfold f_gt, f_le. destruct (fcmp is64 x (bval d b)) as [[| |]|]; congruence.
  Qed.

  Lemma check_le_ok (b : bound) (x : Z) :
    f_le is64 x (bval d b) = true -> check_of lib d (VLessOrEqual b) (VF x) = None.
  Proof.
    intros H. unfold check_of. rewrite Hf. apply fail_none.
    revert H. unfold f_le, f_gt. destruct (fcmp is64 x (bval d b)) as [[| |]|]; congruence.
  Qed.

  Lemma check_lt_ok (b : bound) (x : Z) :
    f_lt is64 x (bval d b) = true -> check_of lib d (VLess b) (VF x) = None.
  Proof.
    intros H. unfold check_of. rewrite Hf. apply fail_none.
    revert H. unfold f_lt, f_ge. destruct (fcmp is64 x (bval d b)) as [[| |]|]; congruence.
  Qed.

  (* one failing check among the emitted ones: try_new returns Err, the generator panics *)
  Lemma arb_float_panic_of_check_in (vs : list validator) (v : validator) (bs : bytes) (x : Z) :
    d_sans d = [] -> d_validation d = Some (RVStandard vs) ->
    arb_float_inner is64 d vs bs = Some x ->
    In v vs -> check_of lib d v (VF x) <> None ->
    arb_float lib d bs = OPanic.
  Proof.
    intros Hs Hv Hi Hin Hc. unfold arb_float. rewrite Hf, Hv, Hi.
    unfold d_try_new, try_new, sans_of, checks_of. rewrite Hs, Hv. cbn [map sanitize fold_left].
    destruct (validate (map (check_of lib d) vs) (VF x)) eqn:E; [reflexivity|]. exfalso.
    apply validate_none_iff in E. rewrite Forall_map, Forall_forall in E. exact (Hc (E v Hin)).
  Qed.
End Checks.

(* S1: any list made of `finite`, `greater_or_equal = bl`, `less = bu` whose boundaries are
   [L, U) (any order, with or without `finite`).  With xmax = L + 1.0 * |U - L|:
     - the corrected value stays above the lower bound:   L <= U - delta
     - the largest overshoot is absorbed by one delta:     xmax - delta < U            *)
Theorem arb_float_incl_excl_ok (lib : fnlib) (d : decl) (is64 : bool) (vs : list validator)
    (bl bu : bound) (bs : bytes) :
  d_family d = FFloat is64 -> d_sans d = [] -> d_validation d = Some (RVStandard vs) ->
  (forall v, In v vs -> v = VFinite \/ v = VGreaterOrEqual bl \/ v = VLess bu) ->
  fboundaries d vs None None =
    (Some {| fb_val := bval d bl; fb_incl := true |}, Some {| fb_val := bval d bu; fb_incl := false |}) ->
  bytes_ok bs = true ->
  f_is_finite is64 (f_sub is64 (bval d bu) (bval d bl)) = true ->
  f_le is64 (bval d bl) (f_sub is64 (bval d bu) (correction_delta is64)) = true ->
  f_lt is64 (f_sub is64 (f_xmax is64 (bval d bl) (bval d bu)) (correction_delta is64)) (bval d bu) = true ->
  exists x, arb_float lib d bs = OOk (VF x) /\
            f_le is64 (bval d bl) x = true /\ f_lt is64 x (bval d bu) = true /\ f_is_finite is64 x = true.
Proof.
  intros Hf Hs Hv Hvs Hb Hok Hr H1 H2.
  destruct (arb_float_inner_incl_excl is64 d vs bs _ _ Hb Hok Hr H1 H2) as (x & Hi & A & B & C).
  exists x. split; [|repeat split; assumption].
  apply (arb_float_ok_of_checks lib d is64 vs bs x Hf Hs Hv Hi).
  intros v Hin. destruct (Hvs v Hin) as [-> | [-> | ->]].
  - exact (check_finite_ok lib d is64 Hf x C).
  - exact (check_ge_ok lib d is64 Hf bl x A).
  - exact (check_lt_ok lib d is64 Hf bu x B).
Qed.

(* S2: `finite`, `greater = bl`, `less_or_equal = bu`, boundaries (L, U].  The hypothesis
   L + delta <= U is not needed: a corrected value above U is clamped to U, and L < U. *)
Theorem arb_float_excl_incl_ok (lib : fnlib) (d : decl) (is64 : bool) (vs : list validator)
    (bl bu : bound) (bs : bytes) :
  d_family d = FFloat is64 -> d_sans d = [] -> d_validation d = Some (RVStandard vs) ->
  (forall v, In v vs -> v = VFinite \/ v = VGreater bl \/ v = VLessOrEqual bu) ->
  fboundaries d vs None None =
    (Some {| fb_val := bval d bl; fb_incl := false |}, Some {| fb_val := bval d bu; fb_incl := true |}) ->
  bytes_ok bs = true ->
  f_is_finite is64 (f_sub is64 (bval d bu) (bval d bl)) = true ->
  f_lt is64 (bval d bl) (bval d bu) = true ->
  f_gt is64 (f_add is64 (bval d bl) (correction_delta is64)) (bval d bl) = true ->
  exists x, arb_float lib d bs = OOk (VF x) /\
            f_lt is64 (bval d bl) x = true /\ f_le is64 x (bval d bu) = true /\ f_is_finite is64 x = true.
Proof.
  intros Hf Hs Hv Hvs Hb Hok Hr HLU Hd.
  destruct (arb_float_inner_excl_incl is64 d vs bs _ _ Hb Hok Hr HLU Hd) as (x & Hi & A & B & C).
  exists x. split; [|repeat split; assumption].
  apply (arb_float_ok_of_checks lib d is64 vs bs x Hf Hs Hv Hi).
  intros v Hin. destruct (Hvs v Hin) as [-> | [-> | ->]].
  - exact (check_finite_ok lib d is64 Hf x C).
  - exact (check_gt_ok lib d is64 Hf bl x A).
  - exact (check_le_ok lib d is64 Hf bu x B).
Qed.

(* S3: `finite`, `greater = bl`, `less = bu`, boundaries (L, U) *)
Theorem arb_float_excl_excl_ok (lib : fnlib) (d : decl) (is64 : bool) (vs : list validator)
    (bl bu : bound) (bs : bytes) :
  d_family d = FFloat is64 -> d_sans d = [] -> d_validation d = Some (RVStandard vs) ->
  (forall v, In v vs -> v = VFinite \/ v = VGreater bl \/ v = VLess bu) ->
  fboundaries d vs None None =
    (Some {| fb_val := bval d bl; fb_incl := false |}, Some {| fb_val := bval d bu; fb_incl := false |}) ->
  bytes_ok bs = true ->
  f_is_finite is64 (f_sub is64 (bval d bu) (bval d bl)) = true ->
  f_lt is64 (bval d bl) (f_sub is64 (bval d bu) (correction_delta is64)) = true ->
  f_lt is64 (f_sub is64 (f_xmax is64 (bval d bl) (bval d bu)) (correction_delta is64)) (bval d bu) = true ->
  f_gt is64 (f_add is64 (bval d bl) (correction_delta is64)) (bval d bl) = true ->
  f_lt is64 (f_add is64 (bval d bl) (correction_delta is64)) (bval d bu) = true ->
  exists x, arb_float lib d bs = OOk (VF x) /\
            f_lt is64 (bval d bl) x = true /\ f_lt is64 x (bval d bu) = true /\ f_is_finite is64 x = true.
Proof.
  intros Hf Hs Hv Hvs Hb Hok Hr H1 H2 Hd Hd2.
  destruct (arb_float_inner_excl_excl is64 d vs bs _ _ Hb Hok Hr H1 H2 Hd Hd2) as (x & Hi & A & B & C).
  exists x. split; [|repeat split; assumption].
  apply (arb_float_ok_of_checks lib d is64 vs bs x Hf Hs Hv Hi).
  intros v Hin. destruct (Hvs v Hin) as [-> | [-> | ->]].
  - exact (check_finite_ok lib d is64 Hf x C).
  - exact (check_gt_ok lib d is64 Hf bl x A).
  - exact (check_lt_ok lib d is64 Hf bu x B).
Qed.

(* ====================================================================================== *)
(* 7. Converse witnesses                                                                  *)
(* ====================================================================================== *)

Section BinExcl2Zero.
  Variable prec emax : Z.
  Context (prec_gt_0_ : Prec_gt_0 prec).
  Context (prec_lt_emax_ : Prec_lt_emax prec emax).

  (* (+0.0) * r for a non-negative finite r is a zero *)
  Lemma Bmult_zero_l nan (u r : Binary.binary_float prec emax) :
    Binary.is_finite prec emax u = true -> Binary.is_finite prec emax r = true ->
    Binary.B2R prec emax u = 0%R -> (0 <= Binary.B2R prec emax r)%R ->
    Binary.is_finite prec emax (Binary.Bmult prec emax prec_gt_0_ prec_lt_emax_ nan mode_NE u r) = true /\
    Binary.B2R prec emax (Binary.Bmult prec emax prec_gt_0_ prec_lt_emax_ nan mode_NE u r) = 0%R.
  Proof.
    intros Fu Fr Hu Hr.
    destruct (Bmult_unit_R prec emax prec_gt_0_ prec_lt_emax_ nan u r Fu Fr ltac:(lra) Hr) as [F R].
    split; [exact F|]. rewrite R, Hu, Rmult_0_l. apply rnd_0.
  Qed.
End BinExcl2Zero.

Lemma f_mul_zero_l (is64 : bool) (r : Z) :
  f_is_finite is64 r = true -> (0 <= f_real is64 r)%R ->
  f_is_finite is64 (f_mul is64 0 r) = true /\ f_real is64 (f_mul is64 0 r) = 0%R.
Proof.
  destruct (f_poszero_spec is64) as [Z1 Z2]. revert Z1 Z2.
  unfold f_is_finite, f_real, f_mul, f_binop. destruct is64; intros Z1 Z2 Fr Hr.
  - rewrite !b64_of_bits_of_b64. unfold b64_mult. apply Bmult_zero_l; assumption.
  - rewrite !b32_of_bits_of_b32. unfold b32_mult. apply Bmult_zero_l; assumption.
Qed.

(* the all-ones draw is u = 1.0 exactly, the zero draw is u = +0.0 exactly *)
Lemma unit_ratio_max (is64 : bool) :
  f_div is64 (f_of_Z is64 (uint_max is64)) (f_of_Z is64 (uint_max is64)) = f_one is64.
Proof. destruct is64; vm_compute; reflexivity. Qed.

Lemma unit_ratio_zero (is64 : bool) :
  f_div is64 (f_of_Z is64 0) (f_of_Z is64 (uint_max is64)) = 0.
Proof. destruct is64; vm_compute; reflexivity. Qed.

Lemma arb_uint_ones (is64 : bool) : fst (arb_uint (fsize is64) (repeat 255 (fsize is64))) = uint_max is64.
Proof. destruct is64; vm_compute; reflexivity. Qed.

Lemma bytes_ok_ones (is64 : bool) : bytes_ok (repeat 255 (fsize is64)) = true.
Proof. destruct is64; reflexivity. Qed.

(* which validator produced an exclusive boundary *)
Lemma fboundaries_hi_excl_in (d : decl) (vs : list validator) : forall (lo hi lo' : option fbound) (h : fbound),
  fboundaries d vs lo hi = (lo', Some h) -> fb_incl h = false ->
  hi = Some h \/ exists b, In (VLess b) vs /\ bval d b = fb_val h.
Proof.
  induction vs as [|v vs IH]; intros lo hi lo' h H Hi; cbn [fboundaries] in H.
  - injection H as _ ->. left. reflexivity.
  - destruct v; (apply IH in H; [|exact Hi]);
      try (destruct H as [H|(b0 & Hin & Hb0)]; [left; exact H | right; exists b0; split; [right; exact Hin | exact Hb0]]).
    + destruct H as [H|(b0 & Hin & Hb0)]; [|right; exists b0; split; [right; exact Hin | exact Hb0]].
      injection H as <-. right. exists b. split; [left; reflexivity | reflexivity].
    + destruct H as [H|(b0 & Hin & Hb0)]; [|right; exists b0; split; [right; exact Hin | exact Hb0]].
      injection H as <-. discriminate Hi.
Qed.

Lemma fboundaries_lo_excl_in (d : decl) (vs : list validator) : forall (lo hi hi' : option fbound) (l : fbound),
  fboundaries d vs lo hi = (Some l, hi') -> fb_incl l = false ->
  lo = Some l \/ exists b, In (VGreater b) vs /\ bval d b = fb_val l.
Proof.
  induction vs as [|v vs IH]; intros lo hi hi' l H Hi; cbn [fboundaries] in H.
  - injection H as -> _. left. reflexivity.
  - destruct v; (apply IH in H; [|exact Hi]);
      try (destruct H as [H|(b0 & Hin & Hb0)]; [left; exact H | right; exists b0; split; [right; exact Hin | exact Hb0]]).
    + destruct H as [H|(b0 & Hin & Hb0)]; [|right; exists b0; split; [right; exact Hin | exact Hb0]].
      injection H as <-. right. exists b. split; [left; reflexivity | reflexivity].
    + destruct H as [H|(b0 & Hin & Hb0)]; [|right; exists b0; split; [right; exact Hin | exact Hb0]].
      injection H as <-. discriminate Hi.
Qed.

(* S1': the largest overshoot is NOT absorbed by one delta (xmax >= U and xmax - delta >= U):
   every input whose first draw is the all-ones integer (u = 1.0, scaled value xmax) panics.
   Any validator list whose boundaries are [L, U) and that contains the `less` validator. *)
Theorem arb_float_incl_excl_overshoot_panic (lib : fnlib) (d : decl) (is64 : bool) (vs : list validator)
    (bu : bound) (L : Z) (bs : bytes) :
  d_family d = FFloat is64 -> d_sans d = [] -> d_validation d = Some (RVStandard vs) ->
  In (VLess bu) vs ->
  fboundaries d vs None None =
    (Some {| fb_val := L; fb_incl := true |}, Some {| fb_val := bval d bu; fb_incl := false |}) ->
  f_is_finite is64 (f_sub is64 (bval d bu) L) = true ->
  f_ge is64 (f_xmax is64 L (bval d bu)) (bval d bu) = true ->
  f_lt is64 (f_sub is64 (f_xmax is64 L (bval d bu)) (correction_delta is64)) (bval d bu) = false ->
  fst (arb_uint (fsize is64) bs) = uint_max is64 ->
  arb_float lib d bs = OPanic.
Proof.
  intros Hf Hs Hv Hin Hb Hrange Hge Hnlt Hdraw.
  set (U := bval d bu) in *.
  assert (Hi : arb_float_inner is64 d vs bs = Some (f_sub is64 (f_xmax is64 L U) (correction_delta is64))).
  { rewrite (arb_float_inner_two is64 d vs bs _ _ Hb). cbn [fb_val].
    rewrite from0to1_fst, Hdraw, unit_ratio_max, <- f_xmax_scaled.
    unfold adjust_lower, adjust_upper. cbn [fb_incl fb_val]. rewrite Hge. reflexivity. }
  apply (arb_float_panic_of_check_in lib d is64 Hf vs (VLess bu) bs _ Hs Hv Hi Hin).
  unfold check_of. rewrite Hf. fold U.
  destruct (f_sub_finite_inv is64 U L Hrange) as [HU HL].
  destruct (f_one_spec is64) as [F1 R1].
  destruct (scaled_bounds is64 L U (f_one is64) Hrange F1 ltac:(lra)) as (_ & _ & Nxm).
  assert (G : f_ge is64 (f_sub is64 (f_xmax is64 L U) (correction_delta is64)) U = true).
  { apply f_lt_false_ge; [|apply finite_not_nan; exact HU | exact Hnlt].
    apply f_sub_not_nan_l; [exact Nxm | apply delta_finite]. }
  rewrite G. discriminate.
Qed.

Corollary arb_float_incl_excl_overshoot_panic_ones (lib : fnlib) (d : decl) (is64 : bool) (vs : list validator)
    (bu : bound) (L : Z) :
  d_family d = FFloat is64 -> d_sans d = [] -> d_validation d = Some (RVStandard vs) ->
  In (VLess bu) vs ->
  fboundaries d vs None None =
    (Some {| fb_val := L; fb_incl := true |}, Some {| fb_val := bval d bu; fb_incl := false |}) ->
  f_is_finite is64 (f_sub is64 (bval d bu) L) = true ->
  f_ge is64 (f_xmax is64 L (bval d bu)) (bval d bu) = true ->
  f_lt is64 (f_sub is64 (f_xmax is64 L (bval d bu)) (correction_delta is64)) (bval d bu) = false ->
  arb_float lib d (repeat 255 (fsize is64)) = OPanic.
Proof.
  intros Hf Hs Hv Hin Hb Hrange Hge Hnlt.
  exact (arb_float_incl_excl_overshoot_panic lib d is64 vs bu L _ Hf Hs Hv Hin Hb Hrange Hge Hnlt (arb_uint_ones is64)).
Qed.

(* S1 as an exact characterisation: when the scaled value can reach U at all (xmax >= U) and the
   corrected value stays above L, the generator is valid for every well-formed input iff the
   largest overshoot is absorbed by one delta *)
Corollary arb_float_incl_excl_iff (lib : fnlib) (d : decl) (is64 : bool) (vs : list validator) (bl bu : bound) :
  d_family d = FFloat is64 -> d_sans d = [] -> d_validation d = Some (RVStandard vs) ->
  (forall v, In v vs -> v = VFinite \/ v = VGreaterOrEqual bl \/ v = VLess bu) ->
  fboundaries d vs None None =
    (Some {| fb_val := bval d bl; fb_incl := true |}, Some {| fb_val := bval d bu; fb_incl := false |}) ->
  f_is_finite is64 (f_sub is64 (bval d bu) (bval d bl)) = true ->
  f_le is64 (bval d bl) (f_sub is64 (bval d bu) (correction_delta is64)) = true ->
  f_ge is64 (f_xmax is64 (bval d bl) (bval d bu)) (bval d bu) = true ->
  ((forall bs, bytes_ok bs = true ->
      exists x, arb_float lib d bs = OOk (VF x) /\
                f_le is64 (bval d bl) x = true /\ f_lt is64 x (bval d bu) = true /\ f_is_finite is64 x = true) <->
   f_lt is64 (f_sub is64 (f_xmax is64 (bval d bl) (bval d bu)) (correction_delta is64)) (bval d bu) = true).
Proof.
  intros Hf Hs Hv Hvs Hb Hr H1 Hge. split.
  - intros Hall.
    destruct (f_lt is64 (f_sub is64 (f_xmax is64 (bval d bl) (bval d bu)) (correction_delta is64)) (bval d bu)) eqn:E;
      [reflexivity|]. exfalso.
    assert (Hin : exists b, In (VLess b) vs /\ bval d b = bval d bu).
    { destruct (fboundaries_hi_excl_in d vs None None _ _ Hb eq_refl) as [H|H]; [discriminate H | exact H]. }
    destruct Hin as (b & Hin & Hbb).
    assert (Hbu : b = bu).
    { destruct (Hvs _ Hin) as [H|[H|H]]; try discriminate H. injection H as ->. reflexivity. }
    subst b.
    destruct (Hall _ (bytes_ok_ones is64)) as (x & Hx & _).
    rewrite (arb_float_incl_excl_overshoot_panic_ones lib d is64 vs bu (bval d bl) Hf Hs Hv Hin Hb Hr Hge E) in Hx.
    discriminate Hx.
  - intros H2 bs Hok. exact (arb_float_incl_excl_ok lib d is64 vs bl bu bs Hf Hs Hv Hvs Hb Hok Hr H1 H2).
Qed.

(* S2': the delta is absorbed at L: every input whose first draw is the integer 0 (u = +0.0,
   scaled value IEEE-equal to L, corrected value IEEE-equal to L + delta <= L) panics *)
Theorem arb_float_excl_incl_absorbed_panic (lib : fnlib) (d : decl) (is64 : bool) (vs : list validator)
    (bl : bound) (U : Z) (bs : bytes) :
  d_family d = FFloat is64 -> d_sans d = [] -> d_validation d = Some (RVStandard vs) ->
  In (VGreater bl) vs ->
  fboundaries d vs None None =
    (Some {| fb_val := bval d bl; fb_incl := false |}, Some {| fb_val := U; fb_incl := true |}) ->
  f_is_finite is64 (f_sub is64 U (bval d bl)) = true ->
  f_lt is64 (bval d bl) U = true ->
  f_gt is64 (f_add is64 (bval d bl) (correction_delta is64)) (bval d bl) = false ->
  fst (arb_uint (fsize is64) bs) = 0 ->
  arb_float lib d bs = OPanic.
Proof.
  intros Hf Hs Hv Hin Hb Hrange HLU Hd Hdraw.
  set (L := bval d bl) in *.
  destruct (f_sub_finite_inv is64 U L Hrange) as [HU HL].
  pose proof (delta_finite is64) as Fd.
  pose proof (finite_not_nan is64 U HU) as NU. pose proof (finite_not_nan is64 L HL) as NL.
  destruct (f_abs_spec is64 (f_sub is64 U L)) as (_ & A2 & _ & A4).
  assert (Fr : f_is_finite is64 (fb_abs is64 (f_sub is64 U L)) = true) by (rewrite A2; exact Hrange).
  destruct (f_mul_zero_l is64 _ Fr (A4 Hrange)) as [Fp Rp].
  pose proof (f_add_zero_r_eq is64 _ L Fp Rp HL) as Eq0.
  change (f_add is64 L (f_mul is64 0 (fb_abs is64 (f_sub is64 U L)))) with (scaled is64 L U 0) in Eq0.
  set (x0 := scaled is64 L U 0) in *.
  assert (Hle0 : f_le is64 x0 L = true) by (unfold f_le; rewrite Eq0; reflexivity).
  assert (Hge0 : f_le is64 L x0 = true).
  { unfold f_le. rewrite (fcmp_antisym is64 x0 L Eq Eq0). reflexivity. }
  assert (Fx0 : f_is_finite is64 x0 = true) by exact (f_between_finite is64 L x0 L HL HL Hge0 Hle0).
  pose proof (fun z => f_add_eq_congr is64 x0 L (correction_delta is64) z HL Fd Eq0) as Hc.
  pose proof (f_add_not_nan is64 x0 (correction_delta is64) Fx0 Fd) as Nx1.
  set (x1 := f_add is64 x0 (correction_delta is64)) in *.
  assert (Hle1 : f_le is64 x1 L = true).
  { apply f_gt_false_le; [exact Nx1 | exact NL |]. unfold f_gt. rewrite Hc. exact Hd. }
  assert (G : f_gt is64 x1 U = false).
  { pose proof (proj1 (fcmp_le_lt_trans is64 x1 L U) Hle1 HLU) as Hlt.
    revert Hlt. unfold f_lt, f_gt. destruct (fcmp is64 x1 U) as [[| |]|]; congruence. }
  assert (Hi : arb_float_inner is64 d vs bs = Some x1).
  { rewrite (arb_float_inner_two is64 d vs bs _ _ Hb). cbn [fb_val].
    rewrite from0to1_fst, Hdraw, unit_ratio_zero. fold L. fold x0.
    unfold adjust_lower, adjust_upper. cbn [fb_incl fb_val]. rewrite Hle0. fold x1. rewrite G. reflexivity. }
  apply (arb_float_panic_of_check_in lib d is64 Hf vs (VGreater bl) bs _ Hs Hv Hi Hin).
  unfold check_of. rewrite Hf. fold L. rewrite Hle1. discriminate.
Qed.

(* S2 as an exact characterisation: valid for every well-formed input iff the delta is not
   absorbed at L *)
Corollary arb_float_excl_incl_iff (lib : fnlib) (d : decl) (is64 : bool) (vs : list validator) (bl bu : bound) :
  d_family d = FFloat is64 -> d_sans d = [] -> d_validation d = Some (RVStandard vs) ->
  (forall v, In v vs -> v = VFinite \/ v = VGreater bl \/ v = VLessOrEqual bu) ->
  fboundaries d vs None None =
    (Some {| fb_val := bval d bl; fb_incl := false |}, Some {| fb_val := bval d bu; fb_incl := true |}) ->
  f_is_finite is64 (f_sub is64 (bval d bu) (bval d bl)) = true ->
  f_lt is64 (bval d bl) (bval d bu) = true ->
  ((forall bs, bytes_ok bs = true ->
      exists x, arb_float lib d bs = OOk (VF x) /\
                f_lt is64 (bval d bl) x = true /\ f_le is64 x (bval d bu) = true /\ f_is_finite is64 x = true) <->
   f_gt is64 (f_add is64 (bval d bl) (correction_delta is64)) (bval d bl) = true).
Proof.
  intros Hf Hs Hv Hvs Hb Hr HLU. split.
  - intros Hall.
    destruct (f_gt is64 (f_add is64 (bval d bl) (correction_delta is64)) (bval d bl)) eqn:E; [reflexivity|]. exfalso.
    assert (Hin : exists b, In (VGreater b) vs /\ bval d b = bval d bl).
    { destruct (fboundaries_lo_excl_in d vs None None _ _ Hb eq_refl) as [H|H]; [discriminate H | exact H]. }
    destruct Hin as (b & Hin & Hbb).
    assert (Hbl : b = bl).
    { destruct (Hvs _ Hin) as [H|[H|H]]; try discriminate H. injection H as ->. reflexivity. }
    subst b.
    destruct (Hall [] eq_refl) as (x & Hx & _).
    rewrite (arb_float_excl_incl_absorbed_panic lib d is64 vs bl (bval d bu) [] Hf Hs Hv Hin Hb Hr HLU E
               (arb_uint_nil_fst is64)) in Hx.
    discriminate Hx.
  - intros Hd bs Hok. exact (arb_float_excl_incl_ok lib d is64 vs bl bu bs Hf Hs Hv Hvs Hb Hok Hr HLU Hd).
Qed.

(* S1, complement: when even the largest scaled value is below U no correction ever fires, and
   no hypothesis about delta is needed *)
Theorem arb_float_incl_excl_no_overshoot_ok (lib : fnlib) (d : decl) (is64 : bool) (vs : list validator)
    (bl bu : bound) (bs : bytes) :
  d_family d = FFloat is64 -> d_sans d = [] -> d_validation d = Some (RVStandard vs) ->
  (forall v, In v vs -> v = VFinite \/ v = VGreaterOrEqual bl \/ v = VLess bu) ->
  fboundaries d vs None None =
    (Some {| fb_val := bval d bl; fb_incl := true |}, Some {| fb_val := bval d bu; fb_incl := false |}) ->
  bytes_ok bs = true ->
  f_is_finite is64 (f_sub is64 (bval d bu) (bval d bl)) = true ->
  f_lt is64 (f_xmax is64 (bval d bl) (bval d bu)) (bval d bu) = true ->
  exists x, arb_float lib d bs = OOk (VF x) /\
            f_le is64 (bval d bl) x = true /\ f_lt is64 x (bval d bu) = true /\ f_is_finite is64 x = true.
Proof.
  intros Hf Hs Hv Hvs Hb Hok Hr Hlt.
  destruct (f_sub_finite_inv is64 _ _ Hr) as [HU HL].
  destruct (scaled_bounds_draw is64 _ _ bs Hok Hr) as (Hlo & Hhi & Nxm).
  pose proof (arb_float_inner_two is64 d vs bs _ _ Hb) as Hi. cbn [fb_val] in Hi.
  set (x0 := scaled is64 (bval d bl) (bval d bu) (fst (from0to1 is64 bs))) in *.
  pose proof (proj1 (fcmp_le_lt_trans is64 _ _ _) Hhi Hlt) as B.
  assert (G : f_ge is64 x0 (bval d bu) = false).
  { revert B. unfold f_lt, f_ge. destruct (fcmp is64 x0 (bval d bu)) as [[| |]|]; congruence. }
  unfold adjust_lower, adjust_upper in Hi. cbn [fb_incl fb_val] in Hi. rewrite G in Hi.
  assert (C : f_is_finite is64 x0 = true) by exact (f_between_finite is64 _ x0 _ HL HU Hlo (f_lt_le is64 _ _ B)).
  exists x0. split; [|repeat split; assumption].
  apply (arb_float_ok_of_checks lib d is64 vs bs x0 Hf Hs Hv Hi).
  intros v Hin. destruct (Hvs v Hin) as [-> | [-> | ->]].
  - exact (check_finite_ok lib d is64 Hf x0 C).
  - exact (check_ge_ok lib d is64 Hf bl x0 Hlo).
  - exact (check_lt_ok lib d is64 Hf bu x0 B).
Qed.

(* ====================================================================================== *)
(* 8. Non-vacuity: the hypotheses are met (or violated) by concrete declarations          *)
(* ====================================================================================== *)

(* S1: f64, greater_or_equal = 0.0, less = 1.0: valid for EVERY well-formed byte string *)
Example incl_excl_instance (lib : fnlib) (bs : bytes) : bytes_ok bs = true ->
  let d := excl_ex true [VGreaterOrEqual (BLit 0); VLess (BLit 4607182418800017408)] in
  exists x, arb_float lib d bs = OOk (VF x) /\
            f_le true 0 x = true /\ f_lt true x 4607182418800017408 = true /\ f_is_finite true x = true.
Proof.
  intros Hok d.
  apply (arb_float_incl_excl_ok lib d true
           [VGreaterOrEqual (BLit 0); VLess (BLit 4607182418800017408)] (BLit 0) (BLit 4607182418800017408) bs).
  - reflexivity.
  - reflexivity.
  - reflexivity.
  - intros v [<-|[<-|[]]]; [right; left; reflexivity | right; right; reflexivity].
  - reflexivity.
  - exact Hok.
  - vm_compute; reflexivity.
  - vm_compute; reflexivity.
  - vm_compute; reflexivity.
Qed.

(* S1 with `finite`, other order: f32, less = 9.5, finite, greater_or_equal = 0.5 *)
Example incl_excl_finite_instance (lib : fnlib) (bs : bytes) : bytes_ok bs = true ->
  let d := excl_ex false [VLess (BLit 1092091904); VFinite; VGreaterOrEqual (BLit 1056964608)] in
  exists x, arb_float lib d bs = OOk (VF x) /\
            f_le false 1056964608 x = true /\ f_lt false x 1092091904 = true /\ f_is_finite false x = true.
Proof.
  intros Hok d.
  apply (arb_float_incl_excl_ok lib d false
           [VLess (BLit 1092091904); VFinite; VGreaterOrEqual (BLit 1056964608)]
           (BLit 1056964608) (BLit 1092091904) bs).
  - reflexivity.
  - reflexivity.
  - reflexivity.
  - intros v [<-|[<-|[<-|[]]]]; [right; right; reflexivity | left; reflexivity | right; left; reflexivity].
  - reflexivity.
  - exact Hok.
  - vm_compute; reflexivity.
  - vm_compute; reflexivity.
  - vm_compute; reflexivity.
Qed.

(* S2: f32, greater = 0.5, less_or_equal = 9.5 *)
Example excl_incl_instance (lib : fnlib) (bs : bytes) : bytes_ok bs = true ->
  let d := excl_ex false [VGreater (BLit 1056964608); VLessOrEqual (BLit 1092091904)] in
  exists x, arb_float lib d bs = OOk (VF x) /\
            f_lt false 1056964608 x = true /\ f_le false x 1092091904 = true /\ f_is_finite false x = true.
Proof.
  intros Hok d.
  apply (arb_float_excl_incl_ok lib d false
           [VGreater (BLit 1056964608); VLessOrEqual (BLit 1092091904)] (BLit 1056964608) (BLit 1092091904) bs).
  - reflexivity.
  - reflexivity.
  - reflexivity.
  - intros v [<-|[<-|[]]]; [right; left; reflexivity | right; right; reflexivity].
  - reflexivity.
  - exact Hok.
  - vm_compute; reflexivity.
  - vm_compute; reflexivity.
  - vm_compute; reflexivity.
Qed.

(* S3: f64, greater = 0.0, less = 1.0 *)
Example excl_excl_instance (lib : fnlib) (bs : bytes) : bytes_ok bs = true ->
  let d := excl_ex true [VGreater (BLit 0); VLess (BLit 4607182418800017408)] in
  exists x, arb_float lib d bs = OOk (VF x) /\
            f_lt true 0 x = true /\ f_lt true x 4607182418800017408 = true /\ f_is_finite true x = true.
Proof.
  intros Hok d.
  apply (arb_float_excl_excl_ok lib d true
           [VGreater (BLit 0); VLess (BLit 4607182418800017408)] (BLit 0) (BLit 4607182418800017408) bs).
  - reflexivity.
  - reflexivity.
  - reflexivity.
  - intros v [<-|[<-|[]]]; [right; left; reflexivity | right; right; reflexivity].
  - reflexivity.
  - exact Hok.
  - vm_compute; reflexivity.
  - vm_compute; reflexivity.
  - vm_compute; reflexivity.
  - vm_compute; reflexivity.
  - vm_compute; reflexivity.
Qed.

(* S3: f32, greater = 0.5, less = 9.5 *)
Example excl_excl_instance32 (lib : fnlib) (bs : bytes) : bytes_ok bs = true ->
  let d := excl_ex false [VGreater (BLit 1056964608); VLess (BLit 1092091904)] in
  exists x, arb_float lib d bs = OOk (VF x) /\
            f_lt false 1056964608 x = true /\ f_lt false x 1092091904 = true /\ f_is_finite false x = true.
Proof.
  intros Hok d.
  apply (arb_float_excl_excl_ok lib d false
           [VGreater (BLit 1056964608); VLess (BLit 1092091904)] (BLit 1056964608) (BLit 1092091904) bs).
  - reflexivity.
  - reflexivity.
  - reflexivity.
  - intros v [<-|[<-|[]]]; [right; left; reflexivity | right; right; reflexivity].
  - reflexivity.
  - exact Hok.
  - vm_compute; reflexivity.
  - vm_compute; reflexivity.
  - vm_compute; reflexivity.
  - vm_compute; reflexivity.
  - vm_compute; reflexivity.
Qed.

(* f64 [1.0, 3.0): xmax = 3.0 = U, so the complement of S1 does not apply there, while S1
   itself does: 3.0 - 4e-15 < 3.0 *)
Example incl_excl_reaches_upper :
  f_lt true (f_xmax true 4607182418800017408 4613937818241073152) 4613937818241073152 = false /\
  f_lt true (f_sub true (f_xmax true 4607182418800017408 4613937818241073152) (correction_delta true))
       4613937818241073152 = true.
Proof. vm_compute. split; reflexivity. Qed.

(* the recorded bad shape f32 [64.0, 65.0) violates the overshoot hypothesis of S1 (and of S3):
   xmax = 65.0 and 65.0 - 0.000002 rounds back to 65.0; the other hypotheses of S1 hold *)
Example incl_excl_hypothesis_fails :
  let L := 1115684864 in let U := 1115815936 in
  f_lt false (f_sub false (f_xmax false L U) (correction_delta false)) U = false /\
  f_is_finite false (f_sub false U L) = true /\
  f_le false L (f_sub false U (correction_delta false)) = true /\
  f_ge false (f_xmax false L U) U = true.
Proof. vm_compute. repeat split; reflexivity. Qed.

(* S1': hence the all-ones draw panics for f32 [64.0, 65.0), with or without `finite` *)
Example incl_excl_overshoot_instance (lib : fnlib) :
  let d1 := excl_ex false [VGreaterOrEqual (BLit 1115684864); VLess (BLit 1115815936)] in
  let d2 := excl_ex false [VFinite; VLess (BLit 1115815936); VGreaterOrEqual (BLit 1115684864)] in
  arb_float lib d1 [255; 255; 255; 255] = OPanic /\ arb_float lib d2 [255; 255; 255; 255] = OPanic.
Proof.
  intros d1 d2. split.
  - apply (arb_float_incl_excl_overshoot_panic_ones lib d1 false
             [VGreaterOrEqual (BLit 1115684864); VLess (BLit 1115815936)] (BLit 1115815936) 1115684864).
    + reflexivity.
    + reflexivity.
    + reflexivity.
    + right; left; reflexivity.
    + reflexivity.
    + vm_compute; reflexivity.
    + vm_compute; reflexivity.
    + vm_compute; reflexivity.
  - apply (arb_float_incl_excl_overshoot_panic_ones lib d2 false
             [VFinite; VLess (BLit 1115815936); VGreaterOrEqual (BLit 1115684864)] (BLit 1115815936) 1115684864).
    + reflexivity.
    + reflexivity.
    + reflexivity.
    + right; left; reflexivity.
    + reflexivity.
    + vm_compute; reflexivity.
    + vm_compute; reflexivity.
    + vm_compute; reflexivity.
Qed.

(* S2': f32, greater = 64.0, less_or_equal = 128.0: the delta is absorbed at 64.0, the empty
   input and four zero bytes panic *)
Example excl_incl_absorbed_instance (lib : fnlib) :
  let d := excl_ex false [VGreater (BLit 1115684864); VLessOrEqual (BLit 1124073472)] in
  arb_float lib d [] = OPanic /\ arb_float lib d [0; 0; 0; 0] = OPanic.
Proof.
  intros d.
  assert (H : forall bs, fst (arb_uint (fsize false) bs) = 0 -> arb_float lib d bs = OPanic).
  { intros bs H0.
    apply (arb_float_excl_incl_absorbed_panic lib d false
             [VGreater (BLit 1115684864); VLessOrEqual (BLit 1124073472)] (BLit 1115684864) 1124073472 bs).
    - reflexivity.
    - reflexivity.
    - reflexivity.
    - left; reflexivity.
    - reflexivity.
    - vm_compute; reflexivity.
    - vm_compute; reflexivity.
    - vm_compute; reflexivity.
    - exact H0. }
  split; apply H; reflexivity.
Qed.
