(* C12: float newtypes with `finite` have a lawful Eq and a total, panic-free Ord. *)
From NV Require Import Base.Util Base.FloatBits Base.Float Base.Expr Macro.Surface Macro.Ast
     Sem.Guard Sem.Value Sem.Eval Sem.Conv Sem.Bytes Sem.ArbFloat Sem.Order Spec.GuardSpec
     Lemmas.GuardLemmas Lemmas.DeclLemmas Lemmas.FloatOrder.
Local Open Scope Z_scope.

Section Decl.
  Variable lib : fnlib.
  Hypothesis Hlib : lib_typed lib.

  Lemma sanitizer_fn_typed (d : decl) (s : sanitizer) (fam : family) (x : value) :
    typed fam x = true -> typed fam (sanitizer_fn lib d s x) = true.
  Proof.
    intros Ht. destruct s; cbn; try (destruct x; cbn in *; destruct fam; try discriminate; reflexivity).
    apply Hlib. exact Ht.
  Qed.

  Lemma sanitize_typed (d : decl) (fam : family) (raw : value) :
    typed fam raw = true -> typed fam (d_sanitize lib d raw) = true.
  Proof.
    unfold d_sanitize, sans_of, sanitize. generalize (d_sans d). intros l. revert raw.
    induction l as [|s l IH]; intros raw Ht; cbn; [exact Ht|].
    apply IH. apply sanitizer_fn_typed. exact Ht.
  Qed.

  (* whatever try_new accepts under a `finite` validator is a finite float *)
  Lemma try_new_finite (d : decl) (is64 : bool) (vs : list validator) (raw v : value) :
    d_family d = FFloat is64 -> d_validation d = Some (RVStandard vs) -> In VFinite vs ->
    typed (d_family d) raw = true ->
    d_try_new lib d raw = Ok v -> exists z, v = VF z /\ f_is_finite is64 z = true.
  Proof.
    intros Hf Hv Hin Hty Ht. unfold d_try_new in Ht. apply try_new_ok_iff in Ht. destruct Ht as [-> Hn].
    fold (d_sanitize lib d raw) in *.
    pose proof (sanitize_typed d _ raw Hty) as Hs. rewrite Hf in Hs.
    unfold checks_of in Hn. rewrite Hv in Hn. rewrite validate_none_iff, Forall_map, Forall_forall in Hn.
    specialize (Hn _ Hin). unfold check_of in Hn. rewrite Hf in Hn.
    destruct (d_sanitize lib d raw) as [zi|z|s|l]; cbn in Hs; try discriminate.
    exists z. split; [reflexivity|]. apply fail_none in Hn. rewrite negb_false_iff in Hn. exact Hn.
  Qed.

  (* every safe entry point goes through try_new *)
  Definition finite_outcome (is64 : bool) (o : outcome) : Prop :=
    match o with OOk v => exists z, v = VF z /\ f_is_finite is64 z = true | _ => True end.

  Lemma construct_finite (d : decl) (is64 : bool) (vs : list validator) (raw : value) :
    d_family d = FFloat is64 -> d_validation d = Some (RVStandard vs) -> In VFinite vs ->
    typed (d_family d) raw = true -> finite_outcome is64 (construct lib d raw).
  Proof.
    intros Hf Hv Hin Hty. unfold construct, has_validation. rewrite Hv.
    destruct (d_try_new lib d raw) eqn:E; cbn; [|exact I].
    eapply try_new_finite; eauto.
  Qed.

  Theorem obtainable_finite (d : decl) (is64 : bool) (vs : list validator) :
    d_family d = FFloat is64 -> d_validation d = Some (RVStandard vs) -> In VFinite vs ->
    (forall raw, typed (d_family d) raw = true -> finite_outcome is64 (op_try_new lib d raw)) /\
    (forall raw, typed (d_family d) raw = true -> finite_outcome is64 (op_try_from lib d raw)) /\
    (forall inner, (forall x, inner = Some x -> typed (d_family d) x = true) ->
                   finite_outcome is64 (op_from_str lib d inner)) /\
    (forall inner, (forall x, inner = Some x -> typed (d_family d) x = true) ->
                   finite_outcome is64 (op_deserialize lib d inner)) /\
    finite_outcome is64 (op_default lib d) /\
    (forall bs, finite_outcome is64 (arb_float lib d bs)) /\
    (forall raw, op_from lib d raw = ONotAvail \/ has_trait TrFrom (d_traits d) = true).
  Proof.
    intros Hf Hv Hin.
    assert (Hc : forall raw, typed (d_family d) raw = true -> finite_outcome is64 (construct lib d raw))
      by (intros; eapply construct_finite; eauto).
    repeat split.
    - intros raw Hty. unfold op_try_new, has_validation. rewrite Hv. apply Hc. exact Hty.
    - intros raw Hty. unfold op_try_from. destruct (has_trait TrTryFrom (d_traits d)); [apply Hc; exact Hty | exact I].
    - intros inner Hi. unfold op_from_str. rewrite Hf.
      destruct (has_trait TrFromStr (d_traits d)); [|exact I].
      destruct inner as [x|]; [apply Hc; apply Hi; reflexivity | exact I].
    - intros inner Hi. unfold op_deserialize.
      destruct (has_trait TrDeserialize (d_traits d)); [|exact I].
      destruct inner as [x|]; [apply Hc; apply Hi; reflexivity | exact I].
    - unfold op_default. destruct (has_trait TrDefault (d_traits d)); [|exact I].
      destruct (default_value d) as [v|] eqn:Ed; [|exact I].
      unfold has_validation. rewrite Hv.
      destruct (d_try_new lib d v) eqn:E; [|exact I]. cbn.
      eapply try_new_finite; eauto.
      unfold default_value in Ed. destruct (d_default d); [|discriminate]. rewrite Hf in *.
      destruct (eval_float is64 (d_env d) e); [|discriminate]. injection Ed as <-. reflexivity.
    - intros bs. unfold arb_float. rewrite Hf, Hv.
      destruct (arb_float_inner is64 d vs bs) as [x|]; [|exact I].
      destruct (d_try_new lib d (VF x)) eqn:E; [|exact I]. cbn.
      eapply try_new_finite; eauto. rewrite Hf. reflexivity.
    - intros raw. unfold op_from. destruct (has_trait TrFrom (d_traits d)); auto.
  Qed.
End Decl.

(* order laws on finite values *)
Theorem cmp_total_finite (is64 : bool) (x y : Z) :
  f_is_finite is64 x = true -> f_is_finite is64 y = true ->
  exists c, value_cmp (FFloat is64) (VF x) (VF y) = CmpOk c /\
            value_pcmp (FFloat is64) (VF x) (VF y) = Some c.
Proof.
  intros Hx Hy. unfold value_cmp, value_pcmp.
  destruct (fcmp_total is64 x y (finite_not_nan _ _ Hx) (finite_not_nan _ _ Hy)) as (c & Hc).
  rewrite Hc. eauto.
Qed.

Theorem eq_reflexive_finite (is64 : bool) (x : Z) :
  f_is_finite is64 x = true -> value_eq (FFloat is64) (VF x) (VF x) = true.
Proof.
  intros Hx. unfold value_eq, value_pcmp. rewrite (fcmp_refl is64 x (finite_not_nan _ _ Hx)). reflexivity.
Qed.
