(* Exact characterisation of the one-sided EXCLUSIVE shapes of the derived Arbitrary of float
   newtypes (Sem/ArbFloat.v), and `finite` next to one inclusive bound:
     T1  / T1'   validate(greater = L):  valid for every input  <->  L + delta > L
     T2  / T2'   validate(less = U):     valid for every input  <->  U - delta < U
     T3  / T3u   validate(finite, greater_or_equal = L) / (finite, less_or_equal = U): valid for
                 every input as soon as MAX + L (resp. -MAX + U) does not overflow. *)
From Coq Require Import ZArith Lia List Bool Reals Lra.
From NV Require Import Base.Util Base.IntTy Base.FloatBits Base.Float Base.Expr
     Macro.Surface Macro.Ast Sem.Guard Sem.Value Sem.Eval Sem.Bytes Sem.ArbFloat
     Lemmas.GuardLemmas Lemmas.FloatOrder Lemmas.ArbFloatLemmas Lemmas.ArbFloatValid.
From Flocq Require Import Core IEEE754.BinarySingleNaN IEEE754.Binary IEEE754.Bits.
Local Open Scope Z_scope.

(* ====================================================================================== *)
(* 1. Generic layer on Flocq's binary_float (any format)                                  *)
(* ====================================================================================== *)

Section BinExcl.
  Variable prec emax : Z.
  Context (prec_gt_0_ : Prec_gt_0 prec).
  Context (prec_lt_emax_ : Prec_lt_emax prec emax).
  Notation bf := (Binary.binary_float prec emax).
  Notation fexp := (SpecFloat.fexp prec emax).
  Notation rnd := (round radix2 fexp (round_mode mode_NE)).
  Notation B2R := (Binary.B2R prec emax).
  Notation is_finite := (Binary.is_finite prec emax).
  Notation is_nan := (Binary.is_nan prec emax).
  Notation Bsign := (Binary.Bsign prec emax).
  Notation Bcompare := (Binary.Bcompare prec emax).
  Notation Bplus := (Binary.Bplus prec emax prec_gt_0_ prec_lt_emax_).
  Notation Bminus := (Binary.Bminus prec emax prec_gt_0_ prec_lt_emax_).
  Notation Binf := (Binary.B754_infinity prec emax).
  Notation Bzero := (Binary.B754_zero prec emax).
  Notation Bplus_cases := (Bplus_cases prec emax prec_gt_0_ prec_lt_emax_).
  Notation rnd_B2R := (rnd_B2R prec emax).
  Notation rnd_le := (rnd_le prec emax prec_gt_0_).

  (* the two outcomes of a rounded subtraction of finite numbers *)
  Lemma Bminus_cases nan (x y : bf) : is_finite x = true -> is_finite y = true ->
    (is_finite (Bminus nan mode_NE x y) = true /\ B2R (Bminus nan mode_NE x y) = rnd (B2R x - B2R y))
    \/ (Bminus nan mode_NE x y = Binf (Bsign x) /\ Bsign x = negb (Bsign y) /\
        (bpow radix2 emax <= Rabs (rnd (B2R x - B2R y)))%R).
  Proof.
    intros Fx Fy. generalize (Bminus_correct prec emax prec_gt_0_ prec_lt_emax_ nan mode_NE x y Fx Fy).
    destruct (Rlt_bool_spec (Rabs (rnd (B2R x - B2R y))) (bpow radix2 emax)) as [Hlt|Hge].
    - intros (H1 & H2 & _). left. split; assumption.
    - intros (H1 & H2). right. split; [|split; assumption].
      revert H1. generalize (Bminus nan mode_NE x y). intros r. cbn.
      destruct r; cbn; intros H1; try discriminate. injection H1 as <-. reflexivity.
  Qed.

  (* comparisons only see the real value of a finite number (not the sign of a zero) *)
  Lemma Bcompare_eqR (a a' z : bf) : is_finite a = true -> is_finite a' = true -> B2R a = B2R a' ->
    Bcompare a z = Bcompare a' z.
  Proof.
    intros Fa Fa' E. destruct (is_finite z) eqn:Fz.
    - rewrite !Bcompare_correct by assumption. rewrite E. reflexivity.
    - destruct z as [sz|sz|sz pz Hz|sz mz ez Hz]; try discriminate Fz;
        destruct a as [sa|sa|sa pa Ha|sa ma ea Ha]; try discriminate Fa;
        destruct a' as [sa'|sa'|sa' pa' Ha'|sa' ma' ea' Ha']; try discriminate Fa'; reflexivity.
  Qed.

  Lemma Bcompare_Eq_finite (x y : bf) : is_finite y = true -> Bcompare x y = Some Eq ->
    is_finite x = true /\ B2R x = B2R y.
  Proof.
    intros Fy H.
    assert (Fx : is_finite x = true).
    { destruct x as [sx|sx|sx px Hx|sx mx ex Hx]; try reflexivity; exfalso;
        destruct y as [sy|sy|sy py Hy|sy my ey Hy]; try discriminate Fy;
        try destruct sx; try destruct sy; cbn in H; discriminate H. }
    split; [exact Fx|].
    rewrite (Bcompare_correct prec emax x y Fx Fy) in H. injection H as H.
    apply Rcompare_Eq_inv. exact H.
  Qed.

  Lemma Bcompare_Eq_of_R (x y : bf) : is_finite x = true -> is_finite y = true -> B2R x = B2R y ->
    Bcompare x y = Some Eq.
  Proof.
    intros Fx Fy E. rewrite (Bcompare_correct prec emax x y Fx Fy), E, Rcompare_Eq; reflexivity.
  Qed.

  (* rounded addition / subtraction respect IEEE equality of the finite left operand *)
  Lemma Bplus_congr_l nan (x x' y z : bf) :
    is_finite x = true -> is_finite x' = true -> is_finite y = true -> B2R x = B2R x' ->
    Bcompare (Bplus nan mode_NE x y) z = Bcompare (Bplus nan mode_NE x' y) z.
  Proof.
    intros Fx Fx' Fy E.
    destruct (Bplus_cases nan x y Fx Fy) as [[F1 R1]|(I1 & S1 & O1)];
      destruct (Bplus_cases nan x' y Fx' Fy) as [[F2 R2]|(I2 & S2 & O2)].
    - apply Bcompare_eqR; [exact F1 | exact F2 | rewrite R1, R2, E; reflexivity].
    - exfalso. rewrite <- E, <- R1 in O2.
      pose proof (abs_B2R_lt_emax prec emax (Bplus nan mode_NE x y)). lra.
    - exfalso. rewrite E, <- R2 in O1.
      pose proof (abs_B2R_lt_emax prec emax (Bplus nan mode_NE x' y)). lra.
    - rewrite I1, I2, S1, S2. reflexivity.
  Qed.

  Lemma Bminus_congr_l nan (x x' y z : bf) :
    is_finite x = true -> is_finite x' = true -> is_finite y = true -> B2R x = B2R x' ->
    Bcompare (Bminus nan mode_NE x y) z = Bcompare (Bminus nan mode_NE x' y) z.
  Proof.
    intros Fx Fx' Fy E.
    destruct (Bminus_cases nan x y Fx Fy) as [[F1 R1]|(I1 & S1 & O1)];
      destruct (Bminus_cases nan x' y Fx' Fy) as [[F2 R2]|(I2 & S2 & O2)].
    - apply Bcompare_eqR; [exact F1 | exact F2 | rewrite R1, R2, E; reflexivity].
    - exfalso. rewrite <- E, <- R1 in O2.
      pose proof (abs_B2R_lt_emax prec emax (Bminus nan mode_NE x y)). lra.
    - exfalso. rewrite E, <- R2 in O1.
      pose proof (abs_B2R_lt_emax prec emax (Bminus nan mode_NE x' y)). lra.
    - rewrite I1, I2, S1, S2. reflexivity.
  Qed.

  Lemma Bplus_not_nan nan (x y : bf) : is_finite x = true -> is_finite y = true ->
    is_nan (Bplus nan mode_NE x y) = false.
  Proof.
    intros Fx Fy. destruct (Bplus_cases nan x y Fx Fy) as [[F1 _]|(I1 & _)].
    - apply finite_not_nan_B. exact F1.
    - rewrite I1. reflexivity.
  Qed.

  Lemma Bminus_not_nan nan (x y : bf) : is_finite x = true -> is_finite y = true ->
    is_nan (Bminus nan mode_NE x y) = false.
  Proof.
    intros Fx Fy. destruct (Bminus_cases nan x y Fx Fy) as [[F1 _]|(I1 & _)].
    - apply finite_not_nan_B. exact F1.
    - rewrite I1. reflexivity.
  Qed.

  (* a zero of either sign plus a finite number is that number (up to the sign of zero) *)
  Lemma Bplus_zero_l nan (a y : bf) : is_finite a = true -> is_finite y = true -> B2R a = 0%R ->
    is_finite (Bplus nan mode_NE a y) = true /\ B2R (Bplus nan mode_NE a y) = B2R y.
  Proof.
    intros Fa Fy Ha. destruct (Bplus_cases nan a y Fa Fy) as [[F1 R1]|(_ & _ & O1)].
    - split; [exact F1|]. rewrite R1, Ha, Rplus_0_l. apply rnd_B2R.
    - exfalso. rewrite Ha, Rplus_0_l, rnd_B2R in O1.
      pose proof (abs_B2R_lt_emax prec emax y). lra.
  Qed.

  (* if m + y does not overflow, neither does a + y for a between 0 and m *)
  Lemma Bplus_finite_between nan (a m y : bf) :
    is_finite a = true -> is_finite m = true -> is_finite y = true ->
    ((0 <= B2R a <= B2R m)%R \/ (B2R m <= B2R a <= 0)%R) ->
    is_finite (Bplus nan mode_NE m y) = true -> is_finite (Bplus nan mode_NE a y) = true.
  Proof.
    intros Fa Fm Fy Hb Fmy.
    destruct (Bplus_cases nan m y Fm Fy) as [[_ R1]|(I1 & _)]; [|rewrite I1 in Fmy; discriminate Fmy].
    destruct (Bplus_cases nan a y Fa Fy) as [[F2 _]|(_ & _ & O2)]; [exact F2|]. exfalso.
    pose proof (abs_B2R_lt_emax prec emax (Bplus nan mode_NE m y)) as Hm. rewrite R1 in Hm.
    pose proof (abs_B2R_lt_emax prec emax y) as Hy.
    apply Rabs_lt_inv in Hm. apply Rabs_lt_inv in Hy.
    assert (Hlt : (Rabs (rnd (B2R a + B2R y)) < bpow radix2 emax)%R).
    { apply Rabs_lt. destruct Hb as [Hb|Hb].
      - assert (H1 : (rnd (B2R y) <= rnd (B2R a + B2R y))%R) by (apply rnd_le; lra).
        assert (H2 : (rnd (B2R a + B2R y) <= rnd (B2R m + B2R y))%R) by (apply rnd_le; lra).
        rewrite rnd_B2R in H1. lra.
      - assert (H1 : (rnd (B2R a + B2R y) <= rnd (B2R y))%R) by (apply rnd_le; lra).
        assert (H2 : (rnd (B2R m + B2R y) <= rnd (B2R a + B2R y))%R) by (apply rnd_le; lra).
        rewrite rnd_B2R in H1. lra. }
    lra.
  Qed.
End BinExcl.

(* ====================================================================================== *)
(* 2. The two formats, on bit patterns                                                    *)
(* ====================================================================================== *)

Lemma delta_finite (is64 : bool) : f_is_finite is64 (correction_delta is64) = true.
Proof. destruct is64; vm_compute; reflexivity. Qed.

(* rounded addition respects IEEE equality of a finite left operand: the comparison of the sum
   with anything does not see which of two IEEE-equal operands (e.g. +0.0 / -0.0) was added *)
Lemma f_add_eq_congr (is64 : bool) (x x' y z : Z) :
  f_is_finite is64 x' = true -> f_is_finite is64 y = true -> fcmp is64 x x' = Some Eq ->
  fcmp is64 (f_add is64 x y) z = fcmp is64 (f_add is64 x' y) z.
Proof.
  unfold fcmp, f_is_finite, f_add, f_binop. destruct is64; intros Fx' Fy E.
  - rewrite !b64_of_bits_of_b64.
    destruct (Bcompare_Eq_finite 53 1024 _ _ Fx' E) as [Fx R].
    unfold b64_compare, b64_plus. apply Bplus_congr_l; assumption.
  - rewrite !b32_of_bits_of_b32.
    destruct (Bcompare_Eq_finite 24 128 _ _ Fx' E) as [Fx R].
    unfold b32_compare, b32_plus. apply Bplus_congr_l; assumption.
Qed.

Lemma f_sub_eq_congr (is64 : bool) (x x' y z : Z) :
  f_is_finite is64 x' = true -> f_is_finite is64 y = true -> fcmp is64 x x' = Some Eq ->
  fcmp is64 (f_sub is64 x y) z = fcmp is64 (f_sub is64 x' y) z.
Proof.
  unfold fcmp, f_is_finite, f_sub, f_binop. destruct is64; intros Fx' Fy E.
  - rewrite !b64_of_bits_of_b64.
    destruct (Bcompare_Eq_finite 53 1024 _ _ Fx' E) as [Fx R].
    unfold b64_compare, b64_minus. apply Bminus_congr_l; assumption.
  - rewrite !b32_of_bits_of_b32.
    destruct (Bcompare_Eq_finite 24 128 _ _ Fx' E) as [Fx R].
    unfold b32_compare, b32_minus. apply Bminus_congr_l; assumption.
Qed.

Lemma f_add_not_nan (is64 : bool) (x y : Z) :
  f_is_finite is64 x = true -> f_is_finite is64 y = true -> f_is_nan is64 (f_add is64 x y) = false.
Proof.
  unfold f_is_finite, f_is_nan, f_add, f_binop. destruct is64; intros Fx Fy.
  - rewrite b64_of_bits_of_b64. unfold b64_plus. apply Bplus_not_nan; assumption.
  - rewrite b32_of_bits_of_b32. unfold b32_plus. apply Bplus_not_nan; assumption.
Qed.

Lemma f_sub_not_nan (is64 : bool) (x y : Z) :
  f_is_finite is64 x = true -> f_is_finite is64 y = true -> f_is_nan is64 (f_sub is64 x y) = false.
Proof.
  unfold f_is_finite, f_is_nan, f_sub, f_binop. destruct is64; intros Fx Fy.
  - rewrite b64_of_bits_of_b64. unfold b64_minus. apply Bminus_not_nan; assumption.
  - rewrite b32_of_bits_of_b32. unfold b32_minus. apply Bminus_not_nan; assumption.
Qed.

(* (+0.0 or -0.0) + L is IEEE-equal to L *)
Lemma f_add_zero_eq (is64 : bool) (a L : Z) :
  f_is_finite is64 a = true -> f_real is64 a = 0%R -> f_is_finite is64 L = true ->
  fcmp is64 (f_add is64 a L) L = Some Eq.
Proof.
  unfold fcmp, f_is_finite, f_real, f_add, f_binop. destruct is64; intros Fa Ra FL.
  - rewrite b64_of_bits_of_b64. unfold b64_compare, b64_plus.
    match goal with |- Binary.Bcompare _ _ (Binary.Bplus _ _ ?p1 ?p2 ?nan _ _ _) _ = _ =>
      destruct (Bplus_zero_l 53 1024 p1 p2 nan _ _ Fa FL Ra) as [F R] end.
    apply Bcompare_Eq_of_R; assumption.
  - rewrite b32_of_bits_of_b32. unfold b32_compare, b32_plus.
    match goal with |- Binary.Bcompare _ _ (Binary.Bplus _ _ ?p1 ?p2 ?nan _ _ _) _ = _ =>
      destruct (Bplus_zero_l 24 128 p1 p2 nan _ _ Fa FL Ra) as [F R] end.
    apply Bcompare_Eq_of_R; assumption.
Qed.

Lemma fb_abs_zero (is64 : bool) : fb_abs is64 0 = 0.
Proof. destruct is64; reflexivity. Qed.

Lemma f_poszero_spec (is64 : bool) : f_is_finite is64 0 = true /\ f_real is64 0 = 0%R.
Proof.
  unfold f_is_finite, f_real. destruct is64.
  - rewrite b64_of_bits_0. split; reflexivity.
  - rewrite b32_of_bits_0. split; reflexivity.
Qed.

Lemma b64_of_bits_negzero : b64_of_bits 9223372036854775808 = Binary.B754_zero 53 1024 true.
Proof. apply B2FF_inj. reflexivity. Qed.
Lemma b32_of_bits_negzero : b32_of_bits 2147483648 = Binary.B754_zero 24 128 true.
Proof. apply B2FF_inj. reflexivity. Qed.

Lemma f_negzero_spec (is64 : bool) :
  f_is_finite is64 (fb_neg is64 (fb_abs is64 0)) = true /\ f_real is64 (fb_neg is64 (fb_abs is64 0)) = 0%R.
Proof.
  unfold f_is_finite, f_real. destruct is64.
  - change (fb_neg true (fb_abs true 0)) with 9223372036854775808.
    rewrite b64_of_bits_negzero. split; reflexivity.
  - change (fb_neg false (fb_abs false 0)) with 2147483648.
    rewrite b32_of_bits_negzero. split; reflexivity.
Qed.

(* -|b| : finiteness and sign of the real value *)
Lemma f_negabs_finite (is64 : bool) (b : Z) :
  f_is_finite is64 (fb_neg is64 (fb_abs is64 b)) = f_is_finite is64 b /\
  (f_is_finite is64 b = true -> (f_real is64 (fb_neg is64 (fb_abs is64 b)) <= 0)%R).
Proof.
  unfold fb_neg, fb_abs, f_is_finite, f_real. destruct is64; cbn [f_width].
  - rewrite lxor_pow2_add by (try apply Z.mod_pos_bound; lia).
    change (2 ^ (64 - 1)) with (2 ^ (52 + 11)).
    destruct (of_bits_with_sign64 b _ true (split_bits_high 52 11 eq_refl eq_refl b))
      as (H1 & H2 & H3).
    rewrite H2. split; [reflexivity|].
    intros Hf. apply Bsign_true_nonpos; [rewrite H2; exact Hf | exact H3].
  - rewrite lxor_pow2_add by (try apply Z.mod_pos_bound; lia).
    change (2 ^ (32 - 1)) with (2 ^ (23 + 8)).
    destruct (of_bits_with_sign32 b _ true (split_bits_high 23 8 eq_refl eq_refl b))
      as (H1 & H2 & H3).
    rewrite H2. split; [reflexivity|].
    intros Hf. apply Bsign_true_nonpos; [rewrite H2; exact Hf | exact H3].
Qed.

(* ---- the largest finite numbers ------------------------------------------------------- *)

Definition max_finite (is64 : bool) : Z := if is64 then 9218868437227405311 else 2139095039.

Lemma max64_R :
  Binary.B2R 53 1024 (b64_of_bits 9218868437227405311) = (bpow radix2 1024 - bpow radix2 (1024 - 53))%R.
Proof.
  unfold b64_of_bits, binary_float_of_bits. rewrite B2R_FF2B.
  replace (binary_float_of_bits_aux 52 11 9218868437227405311)
    with (F754_finite false 9007199254740991 971) by (vm_compute; reflexivity).
  cbn [FF2R cond_Zopp]. unfold F2R. cbn [Fnum Fexp].
  change (1024 - 53) with 971. change 1024 with (53 + 971) at 1. rewrite bpow_plus.
  replace (bpow radix2 53) with (IZR 9007199254740992).
  - replace (IZR 9007199254740991) with (IZR 9007199254740992 - 1)%R.
    + ring.
    + rewrite <- minus_IZR. reflexivity.
  - rewrite <- (IZR_Zpower radix2 53) by lia. reflexivity.
Qed.

Lemma max32_R :
  Binary.B2R 24 128 (b32_of_bits 2139095039) = (bpow radix2 128 - bpow radix2 (128 - 24))%R.
Proof.
  unfold b32_of_bits, binary_float_of_bits. rewrite B2R_FF2B.
  replace (binary_float_of_bits_aux 23 8 2139095039)
    with (F754_finite false 16777215 104) by (vm_compute; reflexivity).
  cbn [FF2R cond_Zopp]. unfold F2R. cbn [Fnum Fexp].
  change (128 - 24) with 104. change 128 with (24 + 104) at 1. rewrite bpow_plus.
  replace (bpow radix2 24) with (IZR 16777216).
  - replace (IZR 16777215) with (IZR 16777216 - 1)%R.
    + ring.
    + rewrite <- minus_IZR. reflexivity.
  - rewrite <- (IZR_Zpower radix2 24) by lia. reflexivity.
Qed.

Lemma negmax64_R :
  Binary.B2R 53 1024 (b64_of_bits 18442240474082181119) = (- (bpow radix2 1024 - bpow radix2 (1024 - 53)))%R.
Proof.
  unfold b64_of_bits, binary_float_of_bits. rewrite B2R_FF2B.
  replace (binary_float_of_bits_aux 52 11 18442240474082181119)
    with (F754_finite true 9007199254740991 971) by (vm_compute; reflexivity).
  cbn [FF2R cond_Zopp]. unfold F2R. cbn [Fnum Fexp Z.opp].
  change (1024 - 53) with 971. change 1024 with (53 + 971) at 1. rewrite bpow_plus.
  replace (bpow radix2 53) with (IZR 9007199254740992).
  - replace (IZR (-9007199254740991)) with (- (IZR 9007199254740992 - 1))%R.
    + ring.
    + rewrite <- minus_IZR, <- opp_IZR. reflexivity.
  - rewrite <- (IZR_Zpower radix2 53) by lia. reflexivity.
Qed.

Lemma negmax32_R :
  Binary.B2R 24 128 (b32_of_bits 4286578687) = (- (bpow radix2 128 - bpow radix2 (128 - 24)))%R.
Proof.
  unfold b32_of_bits, binary_float_of_bits. rewrite B2R_FF2B.
  replace (binary_float_of_bits_aux 23 8 4286578687)
    with (F754_finite true 16777215 104) by (vm_compute; reflexivity).
  cbn [FF2R cond_Zopp]. unfold F2R. cbn [Fnum Fexp Z.opp].
  change (128 - 24) with 104. change 128 with (24 + 104) at 1. rewrite bpow_plus.
  replace (bpow radix2 24) with (IZR 16777216).
  - replace (IZR (-16777215)) with (- (IZR 16777216 - 1))%R.
    + ring.
    + rewrite <- minus_IZR, <- opp_IZR. reflexivity.
  - rewrite <- (IZR_Zpower radix2 24) by lia. reflexivity.
Qed.

Lemma fb_neg_max (is64 : bool) :
  fb_neg is64 (max_finite is64) = if is64 then 18442240474082181119 else 4286578687.
Proof. destruct is64; reflexivity. Qed.

(* a >= 0 finite: a + L is finite as soon as MAX + L is *)
Lemma f_add_finite_below_max (is64 : bool) (a L : Z) :
  f_is_finite is64 a = true -> (0 <= f_real is64 a)%R -> f_is_finite is64 L = true ->
  f_is_finite is64 (f_add is64 (max_finite is64) L) = true ->
  f_is_finite is64 (f_add is64 a L) = true.
Proof.
  unfold f_is_finite, f_real, f_add, f_binop, max_finite. destruct is64; intros Fa Ra FL FM.
  - rewrite b64_of_bits_of_b64 in *. unfold b64_plus in *.
    refine (Bplus_finite_between 53 1024 _ _ _ _ (b64_of_bits 9218868437227405311) _ Fa _ FL _ FM).
    + vm_compute. reflexivity.
    + left. split; [exact Ra|]. rewrite max64_R.
      eapply Rle_trans; [apply Rle_abs | apply (abs_B2R_le_emax_minus_prec 53 1024 eq_refl)].
  - rewrite b32_of_bits_of_b32 in *. unfold b32_plus in *.
    refine (Bplus_finite_between 24 128 _ _ _ _ (b32_of_bits 2139095039) _ Fa _ FL _ FM).
    + vm_compute. reflexivity.
    + left. split; [exact Ra|]. rewrite max32_R.
      eapply Rle_trans; [apply Rle_abs | apply (abs_B2R_le_emax_minus_prec 24 128 eq_refl)].
Qed.

(* a <= 0 finite: a + U is finite as soon as -MAX + U is *)
Lemma f_add_finite_above_negmax (is64 : bool) (a U : Z) :
  f_is_finite is64 a = true -> (f_real is64 a <= 0)%R -> f_is_finite is64 U = true ->
  f_is_finite is64 (f_add is64 (fb_neg is64 (max_finite is64)) U) = true ->
  f_is_finite is64 (f_add is64 a U) = true.
Proof.
  rewrite fb_neg_max.
  unfold f_is_finite, f_real, f_add, f_binop. destruct is64; intros Fa Ra FU FM.
  - rewrite b64_of_bits_of_b64 in *. unfold b64_plus in *.
    refine (Bplus_finite_between 53 1024 _ _ _ _ (b64_of_bits 18442240474082181119) _ Fa _ FU _ FM).
    + vm_compute. reflexivity.
    + right. split; [|exact Ra]. rewrite negmax64_R.
      pose proof (abs_B2R_le_emax_minus_prec 53 1024 eq_refl (b64_of_bits a)) as H.
      apply Rabs_le_inv in H. lra.
  - rewrite b32_of_bits_of_b32 in *. unfold b32_plus in *.
    refine (Bplus_finite_between 24 128 _ _ _ _ (b32_of_bits 4286578687) _ Fa _ FU _ FM).
    + vm_compute. reflexivity.
    + right. split; [|exact Ra]. rewrite negmax32_R.
      pose proof (abs_B2R_le_emax_minus_prec 24 128 eq_refl (b32_of_bits a)) as H.
      apply Rabs_le_inv in H. lra.
Qed.

(* ====================================================================================== *)
(* 3. Lifting to [arb_float]: a failing check is a panic; the zero draw                   *)
(* ====================================================================================== *)

Lemma arb_float_panic_of_check (lib : fnlib) (d : decl) (is64 : bool) (v : validator) (bs : bytes) (x : Z) :
  d_family d = FFloat is64 -> d_sans d = [] -> d_validation d = Some (RVStandard [v]) ->
  arb_float_inner is64 d [v] bs = Some x ->
  check_of lib d v (VF x) <> None ->
  arb_float lib d bs = OPanic.
Proof.
  intros Hf Hs Hv Hi Hc. unfold arb_float. rewrite Hf, Hv, Hi.
  unfold d_try_new, try_new, sans_of, checks_of. rewrite Hs, Hv. cbn [map sanitize fold_left validate].
  destruct (check_of lib d v (VF x)); [reflexivity | congruence].
Qed.

(* when the first draw is the integer 0 the conditioned base value is +0.0 *)
Lemma base_value_zero (is64 : bool) (k : base_kind) (bs : bytes) :
  fst (arb_uint (fsize is64) bs) = 0 ->
  exists r, base_value is64 k (List.length bs + 2) bs = Some (0, r).
Proof.
  intros H0. replace (List.length bs + 2)%nat with (S (List.length bs + 1)) by lia.
  cbn [base_value]. destruct (arb_uint (fsize is64) bs) as [n r]. cbn [fst] in H0. subst n.
  rewrite base_cond_zero. exists r. reflexivity.
Qed.

Lemma arb_uint_zeros (is64 : bool) : fst (arb_uint (fsize is64) (repeat 0 (fsize is64))) = 0.
Proof. destruct is64; reflexivity. Qed.

Lemma arb_uint_nil_fst (is64 : bool) : fst (arb_uint (fsize is64) []) = 0.
Proof. rewrite arb_uint_nil. reflexivity. Qed.

(* ====================================================================================== *)
(* 4. T1 / T1': one exclusive lower bound                                                 *)
(* ====================================================================================== *)

(* x0 = |b| + L >= L; if x0 > L it is kept; otherwise x0 is IEEE-equal to L (so finite) and
   x0 + delta compares with L exactly as L + delta does *)
Theorem arb_float_inner_lower_excl (is64 : bool) (d : decl) (vs : list validator) (bs : bytes) (L : Z) :
  fboundaries d vs None None = (Some {| fb_val := L; fb_incl := false |}, None) ->
  f_is_finite is64 L = true ->
  f_gt is64 (f_add is64 L (correction_delta is64)) L = true ->
  exists x, arb_float_inner is64 d vs bs = Some x /\ f_gt is64 x L = true.
Proof.
  intros Hb HL Hd. unfold arb_float_inner. rewrite Hb.
  destruct (base_value_model_fuel is64 (base_kind_of vs) bs) as (b & r & H & Hc).
  rewrite H. cbn [obind fst fb_val]. unfold adjust_lower. cbn [fb_incl fb_val].
  eexists. split; [reflexivity|].
  assert (Hn : f_is_nan is64 b = false).
  { eapply base_cond_not_nan; [exact Hb | left; discriminate | exact Hc]. }
  destruct (f_abs_spec is64 b) as (A1 & _ & A3 & _).
  assert (Hge : f_ge is64 (f_add is64 (fb_abs is64 b) L) L = true).
  { apply f_add_ge_right; [exact HL | rewrite A1; exact Hn | exact (A3 Hn)]. }
  set (x0 := f_add is64 (fb_abs is64 b) L) in *.
  unfold f_ge in Hge. unfold f_le.
  destruct (fcmp is64 x0 L) as [[| |]|] eqn:E; try discriminate Hge.
  - unfold f_gt.
    rewrite (f_add_eq_congr is64 x0 L (correction_delta is64) L HL (delta_finite is64) E). exact Hd.
  - unfold f_gt. rewrite E. reflexivity.
Qed.

(* T1 *)
Theorem arb_float_lower_excl_ok (lib : fnlib) (d : decl) (is64 : bool) (bnd : bound) (bs : bytes) :
  d_family d = FFloat is64 -> d_sans d = [] ->
  d_validation d = Some (RVStandard [VGreater bnd]) ->
  f_is_finite is64 (bval d bnd) = true ->
  f_gt is64 (f_add is64 (bval d bnd) (correction_delta is64)) (bval d bnd) = true ->
  exists x, arb_float lib d bs = OOk (VF x) /\ f_gt is64 x (bval d bnd) = true.
Proof.
  intros Hf Hs Hv HL Hd.
  destruct (arb_float_inner_lower_excl is64 d [VGreater bnd] bs (bval d bnd) eq_refl HL Hd) as (x & Hi & Hx).
  exists x. split; [|exact Hx].
  apply (arb_float_ok_of_checks lib d is64 _ bs x Hf Hs Hv Hi).
  intros v [<-|[]]. unfold check_of. rewrite Hf. apply fail_none.
  revert Hx. unfold f_gt, f_le. destruct (fcmp is64 x (bval d bnd)) as [[| |]|]; congruence.
Qed.

(* T1': the delta is absorbed at the bound; every input whose first draw is the integer 0 (base
   value +0.0, x0 = +0.0 + L IEEE-equal to L, x0 + delta IEEE-equal to L) is rejected *)
Theorem arb_float_lower_excl_absorbed_panic (lib : fnlib) (d : decl) (is64 : bool) (bnd : bound) (bs : bytes) :
  d_family d = FFloat is64 -> d_sans d = [] ->
  d_validation d = Some (RVStandard [VGreater bnd]) ->
  f_is_finite is64 (bval d bnd) = true ->
  f_gt is64 (f_add is64 (bval d bnd) (correction_delta is64)) (bval d bnd) = false ->
  fst (arb_uint (fsize is64) bs) = 0 ->
  arb_float lib d bs = OPanic.
Proof.
  intros Hf Hs Hv HL Hd H0.
  destruct (base_value_zero is64 BKNotNaN bs H0) as [r Hbv].
  destruct (f_poszero_spec is64) as [Z1 Z2].
  pose proof (f_add_zero_eq is64 0 (bval d bnd) Z1 Z2 HL) as E.
  set (x0 := f_add is64 0 (bval d bnd)) in *.
  assert (Hle0 : f_le is64 x0 (bval d bnd) = true) by (unfold f_le; rewrite E; reflexivity).
  assert (Hi : arb_float_inner is64 d [VGreater bnd] bs = Some (f_add is64 x0 (correction_delta is64))).
  { unfold arb_float_inner. cbn [fboundaries]. change (base_kind_of [VGreater bnd]) with BKNotNaN.
    rewrite Hbv. cbn [obind fst fb_val]. unfold adjust_lower. cbn [fb_incl fb_val].
    rewrite (fb_abs_zero is64). fold x0. rewrite Hle0. reflexivity. }
  apply (arb_float_panic_of_check lib d is64 (VGreater bnd) bs _ Hf Hs Hv Hi).
  unfold check_of. rewrite Hf.
  assert (Hle : f_le is64 (f_add is64 x0 (correction_delta is64)) (bval d bnd) = true).
  { unfold f_le.
    rewrite (f_add_eq_congr is64 x0 (bval d bnd) (correction_delta is64) (bval d bnd) HL (delta_finite is64) E).
    pose proof (f_add_not_nan is64 (bval d bnd) (correction_delta is64) HL (delta_finite is64)) as Hn.
    destruct (fcmp_total is64 _ (bval d bnd) Hn (finite_not_nan is64 _ HL)) as [c Hc].
    unfold f_gt in Hd. rewrite Hc in Hd. rewrite Hc. destruct c; [reflexivity | reflexivity | discriminate Hd]. }
  rewrite Hle. discriminate.
Qed.

Corollary arb_float_lower_excl_absorbed_panic_nil (lib : fnlib) (d : decl) (is64 : bool) (bnd : bound) :
  d_family d = FFloat is64 -> d_sans d = [] ->
  d_validation d = Some (RVStandard [VGreater bnd]) ->
  f_is_finite is64 (bval d bnd) = true ->
  f_gt is64 (f_add is64 (bval d bnd) (correction_delta is64)) (bval d bnd) = false ->
  arb_float lib d [] = OPanic /\ arb_float lib d (repeat 0 (fsize is64)) = OPanic.
Proof.
  intros Hf Hs Hv HL Hd. split.
  - exact (arb_float_lower_excl_absorbed_panic lib d is64 bnd [] Hf Hs Hv HL Hd (arb_uint_nil_fst is64)).
  - exact (arb_float_lower_excl_absorbed_panic lib d is64 bnd _ Hf Hs Hv HL Hd (arb_uint_zeros is64)).
Qed.

(* the exact characterisation: valid for every input iff the delta is not absorbed at L *)
Corollary arb_float_lower_excl_iff (lib : fnlib) (d : decl) (is64 : bool) (bnd : bound) :
  d_family d = FFloat is64 -> d_sans d = [] ->
  d_validation d = Some (RVStandard [VGreater bnd]) ->
  f_is_finite is64 (bval d bnd) = true ->
  ((forall bs, exists x, arb_float lib d bs = OOk (VF x) /\ f_gt is64 x (bval d bnd) = true) <->
   f_gt is64 (f_add is64 (bval d bnd) (correction_delta is64)) (bval d bnd) = true).
Proof.
  intros Hf Hs Hv HL. split.
  - intros Hall.
    destruct (f_gt is64 (f_add is64 (bval d bnd) (correction_delta is64)) (bval d bnd)) eqn:E; [reflexivity|].
    destruct (Hall []) as (x & Hx & _).
    rewrite (arb_float_lower_excl_absorbed_panic lib d is64 bnd [] Hf Hs Hv HL E (arb_uint_nil_fst is64)) in Hx.
    discriminate Hx.
  - intros Hd bs. exact (arb_float_lower_excl_ok lib d is64 bnd bs Hf Hs Hv HL Hd).
Qed.

(* ====================================================================================== *)
(* 5. T2 / T2': one exclusive upper bound                                                 *)
(* ====================================================================================== *)

Theorem arb_float_inner_upper_excl (is64 : bool) (d : decl) (vs : list validator) (bs : bytes) (U : Z) :
  fboundaries d vs None None = (None, Some {| fb_val := U; fb_incl := false |}) ->
  f_is_finite is64 U = true ->
  f_lt is64 (f_sub is64 U (correction_delta is64)) U = true ->
  exists x, arb_float_inner is64 d vs bs = Some x /\ f_lt is64 x U = true.
Proof.
  intros Hb HU Hd. unfold arb_float_inner. rewrite Hb.
  destruct (base_value_model_fuel is64 (base_kind_of vs) bs) as (b & r & H & Hc).
  rewrite H. cbn [obind fst fb_val]. unfold adjust_upper. cbn [fb_incl fb_val].
  eexists. split; [reflexivity|].
  assert (Hn : f_is_nan is64 b = false).
  { eapply base_cond_not_nan; [exact Hb | right; discriminate | exact Hc]. }
  destruct (f_negabs_spec is64 b) as (A1 & A2).
  assert (Hle : f_le is64 (f_add is64 (fb_neg is64 (fb_abs is64 b)) U) U = true).
  { apply f_add_le_right; [exact HU | rewrite A1; exact Hn | exact (A2 Hn)]. }
  set (x0 := f_add is64 (fb_neg is64 (fb_abs is64 b)) U) in *.
  unfold f_le in Hle. unfold f_ge.
  destruct (fcmp is64 x0 U) as [[| |]|] eqn:E; try discriminate Hle.
  - unfold f_lt.
    rewrite (f_sub_eq_congr is64 x0 U (correction_delta is64) U HU (delta_finite is64) E). exact Hd.
  - unfold f_lt. rewrite E. reflexivity.
Qed.

(* T2 *)
Theorem arb_float_upper_excl_ok (lib : fnlib) (d : decl) (is64 : bool) (bnd : bound) (bs : bytes) :
  d_family d = FFloat is64 -> d_sans d = [] ->
  d_validation d = Some (RVStandard [VLess bnd]) ->
  f_is_finite is64 (bval d bnd) = true ->
  f_lt is64 (f_sub is64 (bval d bnd) (correction_delta is64)) (bval d bnd) = true ->
  exists x, arb_float lib d bs = OOk (VF x) /\ f_lt is64 x (bval d bnd) = true.
Proof.
  intros Hf Hs Hv HU Hd.
  destruct (arb_float_inner_upper_excl is64 d [VLess bnd] bs (bval d bnd) eq_refl HU Hd) as (x & Hi & Hx).
  exists x. split; [|exact Hx].
  apply (arb_float_ok_of_checks lib d is64 _ bs x Hf Hs Hv Hi).
  intros v [<-|[]]. unfold check_of. rewrite Hf. apply fail_none.
  revert Hx. unfold f_lt, f_ge. destruct (fcmp is64 x (bval d bnd)) as [[| |]|]; congruence.
Qed.

(* T2': base value +0.0, x0 = -0.0 + U IEEE-equal to U, x0 - delta IEEE-equal to U or above *)
Theorem arb_float_upper_excl_absorbed_panic (lib : fnlib) (d : decl) (is64 : bool) (bnd : bound) (bs : bytes) :
  d_family d = FFloat is64 -> d_sans d = [] ->
  d_validation d = Some (RVStandard [VLess bnd]) ->
  f_is_finite is64 (bval d bnd) = true ->
  f_lt is64 (f_sub is64 (bval d bnd) (correction_delta is64)) (bval d bnd) = false ->
  fst (arb_uint (fsize is64) bs) = 0 ->
  arb_float lib d bs = OPanic.
Proof.
  intros Hf Hs Hv HU Hd H0.
  destruct (base_value_zero is64 BKNotNaN bs H0) as [r Hbv].
  destruct (f_negzero_spec is64) as [Z1 Z2].
  pose proof (f_add_zero_eq is64 _ (bval d bnd) Z1 Z2 HU) as E.
  set (x0 := f_add is64 (fb_neg is64 (fb_abs is64 0)) (bval d bnd)) in *.
  assert (Hge0 : f_ge is64 x0 (bval d bnd) = true) by (unfold f_ge; rewrite E; reflexivity).
  assert (Hi : arb_float_inner is64 d [VLess bnd] bs = Some (f_sub is64 x0 (correction_delta is64))).
  { unfold arb_float_inner. cbn [fboundaries]. change (base_kind_of [VLess bnd]) with BKNotNaN.
    rewrite Hbv. cbn [obind fst fb_val]. unfold adjust_upper. cbn [fb_incl fb_val].
    fold x0. rewrite Hge0. reflexivity. }
  apply (arb_float_panic_of_check lib d is64 (VLess bnd) bs _ Hf Hs Hv Hi).
  unfold check_of. rewrite Hf.
  assert (Hge : f_ge is64 (f_sub is64 x0 (correction_delta is64)) (bval d bnd) = true).
  { unfold f_ge.
    rewrite (f_sub_eq_congr is64 x0 (bval d bnd) (correction_delta is64) (bval d bnd) HU (delta_finite is64) E).
    pose proof (f_sub_not_nan is64 (bval d bnd) (correction_delta is64) HU (delta_finite is64)) as Hn.
    destruct (fcmp_total is64 _ (bval d bnd) Hn (finite_not_nan is64 _ HU)) as [c Hc].
    unfold f_lt in Hd. rewrite Hc in Hd. rewrite Hc. destruct c; [reflexivity | discriminate Hd | reflexivity]. }
  rewrite Hge. discriminate.
Qed.

Corollary arb_float_upper_excl_absorbed_panic_nil (lib : fnlib) (d : decl) (is64 : bool) (bnd : bound) :
  d_family d = FFloat is64 -> d_sans d = [] ->
  d_validation d = Some (RVStandard [VLess bnd]) ->
  f_is_finite is64 (bval d bnd) = true ->
  f_lt is64 (f_sub is64 (bval d bnd) (correction_delta is64)) (bval d bnd) = false ->
  arb_float lib d [] = OPanic /\ arb_float lib d (repeat 0 (fsize is64)) = OPanic.
Proof.
  intros Hf Hs Hv HU Hd. split.
  - exact (arb_float_upper_excl_absorbed_panic lib d is64 bnd [] Hf Hs Hv HU Hd (arb_uint_nil_fst is64)).
  - exact (arb_float_upper_excl_absorbed_panic lib d is64 bnd _ Hf Hs Hv HU Hd (arb_uint_zeros is64)).
Qed.

Corollary arb_float_upper_excl_iff (lib : fnlib) (d : decl) (is64 : bool) (bnd : bound) :
  d_family d = FFloat is64 -> d_sans d = [] ->
  d_validation d = Some (RVStandard [VLess bnd]) ->
  f_is_finite is64 (bval d bnd) = true ->
  ((forall bs, exists x, arb_float lib d bs = OOk (VF x) /\ f_lt is64 x (bval d bnd) = true) <->
   f_lt is64 (f_sub is64 (bval d bnd) (correction_delta is64)) (bval d bnd) = true).
Proof.
  intros Hf Hs Hv HU. split.
  - intros Hall.
    destruct (f_lt is64 (f_sub is64 (bval d bnd) (correction_delta is64)) (bval d bnd)) eqn:E; [reflexivity|].
    destruct (Hall []) as (x & Hx & _).
    rewrite (arb_float_upper_excl_absorbed_panic lib d is64 bnd [] Hf Hs Hv HU E (arb_uint_nil_fst is64)) in Hx.
    discriminate Hx.
  - intros Hd bs. exact (arb_float_upper_excl_ok lib d is64 bnd bs Hf Hs Hv HU Hd).
Qed.

(* ====================================================================================== *)
(* 6. T3 / T3u: `finite` next to one inclusive bound                                      *)
(* ====================================================================================== *)

Theorem arb_float_inner_finite_lower_incl (is64 : bool) (d : decl) (vs : list validator) (bs : bytes) (L : Z) :
  In VFinite vs ->
  fboundaries d vs None None = (Some {| fb_val := L; fb_incl := true |}, None) ->
  f_is_finite is64 L = true ->
  f_is_finite is64 (f_add is64 (max_finite is64) L) = true ->
  exists x, arb_float_inner is64 d vs bs = Some x /\ f_is_finite is64 x = true /\ f_ge is64 x L = true.
Proof.
  intros Hin Hb HL HM. unfold arb_float_inner. rewrite Hb, (base_kind_of_finite vs Hin).
  destruct (base_value_model_fuel is64 BKFinite bs) as (b & r & H & Hc). cbn [base_cond] in Hc.
  rewrite H. cbn [obind fst fb_val]. unfold adjust_lower. cbn [fb_incl fb_val].
  eexists. split; [reflexivity|].
  destruct (f_abs_spec is64 b) as (A1 & A2 & A3 & A4).
  pose proof (finite_not_nan is64 b Hc) as Hn.
  split.
  - apply f_add_finite_below_max; [rewrite A2; exact Hc | exact (A4 Hc) | exact HL | exact HM].
  - apply f_add_ge_right; [exact HL | rewrite A1; exact Hn | exact (A3 Hn)].
Qed.

(* T3, both orders *)
Theorem arb_float_finite_lower_incl_ok (lib : fnlib) (d : decl) (is64 : bool) (vs : list validator)
    (bnd : bound) (bs : bytes) :
  d_family d = FFloat is64 -> d_sans d = [] -> d_validation d = Some (RVStandard vs) ->
  vs = [VFinite; VGreaterOrEqual bnd] \/ vs = [VGreaterOrEqual bnd; VFinite] ->
  f_is_finite is64 (bval d bnd) = true ->
  f_is_finite is64 (f_add is64 (max_finite is64) (bval d bnd)) = true ->
  exists x, arb_float lib d bs = OOk (VF x) /\
            f_is_finite is64 x = true /\ f_ge is64 x (bval d bnd) = true.
Proof.
  intros Hf Hs Hv Hvs HL HM.
  assert (Hin : In VFinite vs) by (destruct Hvs as [-> | ->]; cbn; tauto).
  assert (Hb : fboundaries d vs None None = (Some {| fb_val := bval d bnd; fb_incl := true |}, None))
    by (destruct Hvs as [-> | ->]; reflexivity).
  destruct (arb_float_inner_finite_lower_incl is64 d vs bs _ Hin Hb HL HM) as (x & Hi & H1 & H2).
  exists x. split; [|split; assumption].
  apply (arb_float_ok_of_checks lib d is64 vs bs x Hf Hs Hv Hi).
  assert (C1 : check_of lib d VFinite (VF x) = None).
  { unfold check_of. rewrite Hf, H1. reflexivity. }
  assert (C2 : check_of lib d (VGreaterOrEqual bnd) (VF x) = None).
  { unfold check_of. rewrite Hf. apply fail_none.
    revert H2. unfold f_ge, f_lt. destruct (fcmp is64 x (bval d bnd)) as [[| |]|]; congruence. }
  intros v Hv'. destruct Hvs as [-> | ->]; destruct Hv' as [<-|[<-|[]]]; assumption.
Qed.

Theorem arb_float_inner_finite_upper_incl (is64 : bool) (d : decl) (vs : list validator) (bs : bytes) (U : Z) :
  In VFinite vs ->
  fboundaries d vs None None = (None, Some {| fb_val := U; fb_incl := true |}) ->
  f_is_finite is64 U = true ->
  f_is_finite is64 (f_add is64 (fb_neg is64 (max_finite is64)) U) = true ->
  exists x, arb_float_inner is64 d vs bs = Some x /\ f_is_finite is64 x = true /\ f_le is64 x U = true.
Proof.
  intros Hin Hb HU HM. unfold arb_float_inner. rewrite Hb, (base_kind_of_finite vs Hin).
  destruct (base_value_model_fuel is64 BKFinite bs) as (b & r & H & Hc). cbn [base_cond] in Hc.
  rewrite H. cbn [obind fst fb_val]. unfold adjust_upper. cbn [fb_incl fb_val].
  eexists. split; [reflexivity|].
  destruct (f_negabs_spec is64 b) as (A1 & A2). destruct (f_negabs_finite is64 b) as (B1 & B2).
  pose proof (finite_not_nan is64 b Hc) as Hn.
  assert (Hle : f_le is64 (f_add is64 (fb_neg is64 (fb_abs is64 b)) U) U = true).
  { apply f_add_le_right; [exact HU | rewrite A1; exact Hn | exact (A2 Hn)]. }
  assert (Hfin : f_is_finite is64 (f_add is64 (fb_neg is64 (fb_abs is64 b)) U) = true).
  { apply f_add_finite_above_negmax; [rewrite B1; exact Hc | exact (B2 Hc) | exact HU | exact HM]. }
  assert (Hgt : f_gt is64 (f_add is64 (fb_neg is64 (fb_abs is64 b)) U) U = false).
  { revert Hle. unfold f_le, f_gt. destruct (fcmp is64 _ U) as [[| |]|]; congruence. }
  rewrite Hgt. split; assumption.
Qed.

(* T3u, both orders *)
Theorem arb_float_finite_upper_incl_ok (lib : fnlib) (d : decl) (is64 : bool) (vs : list validator)
    (bnd : bound) (bs : bytes) :
  d_family d = FFloat is64 -> d_sans d = [] -> d_validation d = Some (RVStandard vs) ->
  vs = [VFinite; VLessOrEqual bnd] \/ vs = [VLessOrEqual bnd; VFinite] ->
  f_is_finite is64 (bval d bnd) = true ->
  f_is_finite is64 (f_add is64 (fb_neg is64 (max_finite is64)) (bval d bnd)) = true ->
  exists x, arb_float lib d bs = OOk (VF x) /\
            f_is_finite is64 x = true /\ f_le is64 x (bval d bnd) = true.
Proof.
  intros Hf Hs Hv Hvs HU HM.
  assert (Hin : In VFinite vs) by (destruct Hvs as [-> | ->]; cbn; tauto).
  assert (Hb : fboundaries d vs None None = (None, Some {| fb_val := bval d bnd; fb_incl := true |}))
    by (destruct Hvs as [-> | ->]; reflexivity).
  destruct (arb_float_inner_finite_upper_incl is64 d vs bs _ Hin Hb HU HM) as (x & Hi & H1 & H2).
  exists x. split; [|split; assumption].
  apply (arb_float_ok_of_checks lib d is64 vs bs x Hf Hs Hv Hi).
  assert (C1 : check_of lib d VFinite (VF x) = None).
  { unfold check_of. rewrite Hf, H1. reflexivity. }
  assert (C2 : check_of lib d (VLessOrEqual bnd) (VF x) = None).
  { unfold check_of. rewrite Hf. apply fail_none.
    revert H2. unfold f_le, f_gt. destruct (fcmp is64 x (bval d bnd)) as [[| |]|]; congruence. }
  intros v Hv'. destruct Hvs as [-> | ->]; destruct Hv' as [<-|[<-|[]]]; assumption.
Qed.

(* ====================================================================================== *)
(* 7. Non-vacuity: the hypotheses are met by concrete declarations                         *)
(* ====================================================================================== *)

Definition excl_ex (is64 : bool) (vs : list validator) : decl :=
  {| d_family := FFloat is64; d_name := "T"; d_vis := "pub"; d_generics := []; d_sans := [];
     d_validation := Some (RVStandard vs); d_new_unchecked := false; d_const_fn := false;
     d_default := None; d_traits := [TrArbitrary]; d_env := [] |}.

(* T1: f64, greater = 0.5: valid for EVERY byte string *)
Example lower_excl_instance (lib : fnlib) (bs : bytes) :
  let d := excl_ex true [VGreater (BLit 4602678819172646912)] in
  exists x, arb_float lib d bs = OOk (VF x) /\ f_gt true x 4602678819172646912 = true.
Proof.
  intros d.
  apply (arb_float_lower_excl_ok lib d true (BLit 4602678819172646912) bs).
  - reflexivity.
  - reflexivity.
  - reflexivity.
  - vm_compute; reflexivity.
  - vm_compute; reflexivity.
Qed.

(* T1': f32, greater = 64.0 (the recorded class float_exclusive_bound_delta_absorbed): the empty
   input and four zero bytes panic *)
Example lower_excl_absorbed_instance (lib : fnlib) :
  let d := excl_ex false [VGreater (BLit 1115684864)] in
  arb_float lib d [] = OPanic /\ arb_float lib d [0; 0; 0; 0] = OPanic.
Proof.
  intros d.
  apply (arb_float_lower_excl_absorbed_panic_nil lib d false (BLit 1115684864)).
  - reflexivity.
  - reflexivity.
  - reflexivity.
  - vm_compute; reflexivity.
  - vm_compute; reflexivity.
Qed.

(* T2: f64, less = 0.5 *)
Example upper_excl_instance (lib : fnlib) (bs : bytes) :
  let d := excl_ex true [VLess (BLit 4602678819172646912)] in
  exists x, arb_float lib d bs = OOk (VF x) /\ f_lt true x 4602678819172646912 = true.
Proof.
  intros d.
  apply (arb_float_upper_excl_ok lib d true (BLit 4602678819172646912) bs).
  - reflexivity.
  - reflexivity.
  - reflexivity.
  - vm_compute; reflexivity.
  - vm_compute; reflexivity.
Qed.

(* T2': f32, less = 128.0 (128.0 - 0.000002 rounds back to 128.0; at 64.0 the subtraction is
   still visible, the spacing below a power of two being half the spacing above it) *)
Example upper_excl_absorbed_instance (lib : fnlib) :
  let d := excl_ex false [VLess (BLit 1124073472)] in
  arb_float lib d [] = OPanic /\ arb_float lib d [0; 0; 0; 0] = OPanic.
Proof.
  intros d.
  apply (arb_float_upper_excl_absorbed_panic_nil lib d false (BLit 1124073472)).
  - reflexivity.
  - reflexivity.
  - reflexivity.
  - vm_compute; reflexivity.
  - vm_compute; reflexivity.
Qed.

Example upper_excl_64_not_absorbed :
  f_lt false (f_sub false 1115684864 (correction_delta false)) 1115684864 = true /\
  f_gt false (f_add false 1115684864 (correction_delta false)) 1115684864 = false.
Proof. vm_compute. split; reflexivity. Qed.

(* T3: f64, finite, greater_or_equal = 0.5 (both orders) *)
Example finite_lower_incl_instance (lib : fnlib) (bs : bytes) :
  let d1 := excl_ex true [VFinite; VGreaterOrEqual (BLit 4602678819172646912)] in
  let d2 := excl_ex true [VGreaterOrEqual (BLit 4602678819172646912); VFinite] in
  (exists x, arb_float lib d1 bs = OOk (VF x) /\
             f_is_finite true x = true /\ f_ge true x 4602678819172646912 = true) /\
  (exists x, arb_float lib d2 bs = OOk (VF x) /\
             f_is_finite true x = true /\ f_ge true x 4602678819172646912 = true).
Proof.
  intros d1 d2. split.
  - apply (arb_float_finite_lower_incl_ok lib d1 true [VFinite; VGreaterOrEqual (BLit 4602678819172646912)] (BLit 4602678819172646912) bs).
    + reflexivity.
    + reflexivity.
    + reflexivity.
    + left; reflexivity.
    + vm_compute; reflexivity.
    + vm_compute; reflexivity.
  - apply (arb_float_finite_lower_incl_ok lib d2 true [VGreaterOrEqual (BLit 4602678819172646912); VFinite] (BLit 4602678819172646912) bs).
    + reflexivity.
    + reflexivity.
    + reflexivity.
    + right; reflexivity.
    + vm_compute; reflexivity.
    + vm_compute; reflexivity.
Qed.

(* T3u: f64, finite, less_or_equal = 0.5 (both orders) *)
Example finite_upper_incl_instance (lib : fnlib) (bs : bytes) :
  let d1 := excl_ex true [VFinite; VLessOrEqual (BLit 4602678819172646912)] in
  let d2 := excl_ex true [VLessOrEqual (BLit 4602678819172646912); VFinite] in
  (exists x, arb_float lib d1 bs = OOk (VF x) /\
             f_is_finite true x = true /\ f_le true x 4602678819172646912 = true) /\
  (exists x, arb_float lib d2 bs = OOk (VF x) /\
             f_is_finite true x = true /\ f_le true x 4602678819172646912 = true).
Proof.
  intros d1 d2. split.
  - apply (arb_float_finite_upper_incl_ok lib d1 true [VFinite; VLessOrEqual (BLit 4602678819172646912)] (BLit 4602678819172646912) bs).
    + reflexivity.
    + reflexivity.
    + reflexivity.
    + left; reflexivity.
    + vm_compute; reflexivity.
    + vm_compute; reflexivity.
  - apply (arb_float_finite_upper_incl_ok lib d2 true [VLessOrEqual (BLit 4602678819172646912); VFinite] (BLit 4602678819172646912) bs).
    + reflexivity.
    + reflexivity.
    + reflexivity.
    + right; reflexivity.
    + vm_compute; reflexivity.
    + vm_compute; reflexivity.
Qed.

(* the overflow hypothesis of T3u is not met by the recorded class
   float_one_sided_finite_overflow (f32, finite, less_or_equal = -3.0e38): -MAX + U = -inf *)
Example finite_upper_incl_hypothesis_fails :
  f_is_finite false (f_add false (fb_neg false (max_finite false)) 4284592614) = false.
Proof. vm_compute. reflexivity. Qed.
