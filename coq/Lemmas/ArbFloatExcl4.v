(* One more panic witness of the derived Arbitrary of float newtypes (Sem/ArbFloat.v):
     H1  `finite` beside ONE lower bound L (inclusive or exclusive) when MAX + L overflows:
         every input whose first draw is the bit pattern of MAX (the largest finite value) panics.
         The base value is MAX itself (it is finite), x0 = fl(|MAX| + L) is not finite, the
         exclusive correction (x0 + delta) keeps it not finite, `finite` rejects it.
     H2  `finite` beside ONE upper bound U when -MAX + U overflows: x0 = fl(-|MAX| + U) is not
         finite and not above U (the clamp of the inclusive bound does not fire), the exclusive
         correction (x0 - delta) keeps it not finite, `finite` rejects it.
   The witness input is the little-endian byte string of MAX ([max_finite_bytes]). *)
From Coq Require Import ZArith Lia List Bool Reals Lra.
From NV Require Import Base.Util Base.IntTy Base.FloatBits Base.Float Base.Expr
     Macro.Surface Macro.Ast Sem.Guard Sem.Value Sem.Eval Sem.Bytes Sem.ArbFloat
     Lemmas.GuardLemmas Lemmas.FloatOrder Lemmas.ArbFloatLemmas Lemmas.ArbFloatValid Lemmas.ArbFloatExcl
     Lemmas.ArbFloatExcl2 Lemmas.ArbFloatExcl3.
From Flocq Require Import Core IEEE754.BinarySingleNaN IEEE754.Binary IEEE754.Bits.
Local Open Scope Z_scope.

(* ====================================================================================== *)
(* 1. A finite sum has finite operands                                                    *)
(* ====================================================================================== *)

Section BinExcl4.
  Variable prec emax : Z.
  Context (prec_gt_0_ : Prec_gt_0 prec).
  Context (prec_lt_emax_ : Prec_lt_emax prec emax).
  Notation bf := (Binary.binary_float prec emax).
  Notation is_finite := (Binary.is_finite prec emax).
  Notation Bplus := (Binary.Bplus prec emax prec_gt_0_ prec_lt_emax_).

  Lemma Bplus_finite_inv nan m (x y : bf) :
    is_finite (Bplus nan m x y) = true -> is_finite x = true /\ is_finite y = true.
  Proof.
    destruct x as [sx|sx|sx px Hx|sx mx ex Hx], y as [sy|sy|sy py Hy|sy my ey Hy];
      try (intros _; split; reflexivity); unfold Binary.Bplus; cbn;
      try (intros H; discriminate H);
      try (rewrite is_finite_build_nan; intros H; discriminate H).
    all: destruct sx, sy; cbn; try (intros H; discriminate H);
      try (rewrite is_finite_build_nan; intros H; discriminate H).
  Qed.
End BinExcl4.

Lemma f_add_finite_inv (is64 : bool) (x y : Z) :
  f_is_finite is64 (f_add is64 x y) = true -> f_is_finite is64 x = true /\ f_is_finite is64 y = true.
Proof.
  unfold f_is_finite, f_add, f_binop. destruct is64.
  - rewrite b64_of_bits_of_b64. unfold b64_plus. apply Bplus_finite_inv.
  - rewrite b32_of_bits_of_b32. unfold b32_plus. apply Bplus_finite_inv.
Qed.

Lemma f_add_not_finite_l (is64 : bool) (x y : Z) :
  f_is_finite is64 x = false -> f_is_finite is64 (f_add is64 x y) = false.
Proof.
  intros H. destruct (f_is_finite is64 (f_add is64 x y)) eqn:E; [|reflexivity].
  destruct (f_add_finite_inv is64 x y E) as [Hx _]. rewrite Hx in H. discriminate H.
Qed.

Lemma f_sub_not_finite_l (is64 : bool) (x y : Z) :
  f_is_finite is64 x = false -> f_is_finite is64 (f_sub is64 x y) = false.
Proof.
  intros H. destruct (f_is_finite is64 (f_sub is64 x y)) eqn:E; [|reflexivity].
  destruct (f_sub_finite_inv is64 x y E) as [Hx _]. rewrite Hx in H. discriminate H.
Qed.

(* ====================================================================================== *)
(* 2. The witness: the first draw is the bit pattern of MAX                               *)
(* ====================================================================================== *)

(* the little-endian bytes of the largest finite value *)
Definition max_finite_bytes (is64 : bool) : bytes :=
  if is64 then [255; 255; 255; 255; 255; 255; 239; 127] else [255; 255; 127; 127].

Lemma arb_uint_max_finite (is64 : bool) :
  fst (arb_uint (fsize is64) (max_finite_bytes is64)) = max_finite is64.
Proof. destruct is64; vm_compute; reflexivity. Qed.

Lemma bytes_ok_max_finite (is64 : bool) : bytes_ok (max_finite_bytes is64) = true.
Proof. destruct is64; reflexivity. Qed.

Lemma max_finite_finite (is64 : bool) : f_is_finite is64 (max_finite is64) = true.
Proof. destruct is64; vm_compute; reflexivity. Qed.

Lemma fb_abs_max_finite (is64 : bool) : fb_abs is64 (max_finite is64) = max_finite is64.
Proof. destruct is64; vm_compute; reflexivity. Qed.

(* MAX is finite: whatever the base kind, it is returned unchanged *)
Lemma base_value_max_finite (is64 : bool) (k : base_kind) (bs : bytes) :
  fst (arb_uint (fsize is64) bs) = max_finite is64 ->
  exists r, base_value is64 k (List.length bs + 2) bs = Some (max_finite is64, r).
Proof.
  intros H0. replace (List.length bs + 2)%nat with (S (List.length bs + 1)) by lia.
  cbn [base_value]. destruct (arb_uint (fsize is64) bs) as [n r]. cbn [fst] in H0. subst n.
  assert (Hc : base_cond is64 k (max_finite is64) = true).
  { destruct k; cbn [base_cond]; [reflexivity | | exact (max_finite_finite is64)].
    rewrite (finite_not_nan is64 _ (max_finite_finite is64)). reflexivity. }
  rewrite Hc. exists r. reflexivity.
Qed.

(* ====================================================================================== *)
(* 3. H1: `finite` beside one lower bound, MAX + L overflows                              *)
(* ====================================================================================== *)

(* the inner value is not finite, for an inclusive and for an exclusive lower bound *)
Theorem arb_float_inner_lower_overflow (is64 : bool) (d : decl) (vs : list validator) (bs : bytes)
    (L : Z) (li : bool) :
  fboundaries d vs None None = (Some {| fb_val := L; fb_incl := li |}, None) ->
  f_is_finite is64 (f_add is64 (max_finite is64) L) = false ->
  fst (arb_uint (fsize is64) bs) = max_finite is64 ->
  exists x, arb_float_inner is64 d vs bs = Some x /\ f_is_finite is64 x = false.
Proof.
  intros Hb HM H0. unfold arb_float_inner. rewrite Hb.
  destruct (base_value_max_finite is64 (base_kind_of vs) bs H0) as [r Hbv]. rewrite Hbv.
  cbn [obind fst fb_val]. rewrite fb_abs_max_finite. unfold adjust_lower. cbn [fb_incl fb_val].
  eexists. split; [reflexivity|].
  destruct li; [exact HM|].
  destruct (f_le is64 (f_add is64 (max_finite is64) L) L); [|exact HM].
  apply f_add_not_finite_l. exact HM.
Qed.

(* H1 for ANY validator list with one lower boundary that contains `finite` *)
Theorem arb_float_finite_lower_overflow_panic_in (lib : fnlib) (d : decl) (is64 : bool)
    (vs : list validator) (L : Z) (li : bool) (bs : bytes) :
  d_family d = FFloat is64 -> d_sans d = [] -> d_validation d = Some (RVStandard vs) ->
  In VFinite vs ->
  fboundaries d vs None None = (Some {| fb_val := L; fb_incl := li |}, None) ->
  f_is_finite is64 (f_add is64 (max_finite is64) L) = false ->
  fst (arb_uint (fsize is64) bs) = max_finite is64 ->
  arb_float lib d bs = OPanic.
Proof.
  intros Hf Hs Hv Hin Hb HM H0.
  destruct (arb_float_inner_lower_overflow is64 d vs bs L li Hb HM H0) as (x & Hi & Hx).
  apply (arb_float_panic_of_check_in lib d is64 Hf vs VFinite bs x Hs Hv Hi Hin).
  unfold check_of. rewrite Hf, Hx. discriminate.
Qed.

(* H1, inclusive bound, both orders, on the witness *)
Theorem arb_float_finite_lower_incl_overflow_panic (lib : fnlib) (d : decl) (is64 : bool)
    (vs : list validator) (bnd : bound) :
  d_family d = FFloat is64 -> d_sans d = [] -> d_validation d = Some (RVStandard vs) ->
  vs = [VFinite; VGreaterOrEqual bnd] \/ vs = [VGreaterOrEqual bnd; VFinite] ->
  f_is_finite is64 (bval d bnd) = true ->
  f_is_finite is64 (f_add is64 (max_finite is64) (bval d bnd)) = false ->
  arb_float lib d (max_finite_bytes is64) = OPanic /\ bytes_ok (max_finite_bytes is64) = true.
Proof.
  intros Hf Hs Hv Hvs _ HM. split; [|exact (bytes_ok_max_finite is64)].
  assert (Hin : In VFinite vs) by (destruct Hvs as [-> | ->]; cbn; tauto).
  assert (Hb : fboundaries d vs None None = (Some {| fb_val := bval d bnd; fb_incl := true |}, None))
    by (destruct Hvs as [-> | ->]; reflexivity).
  exact (arb_float_finite_lower_overflow_panic_in lib d is64 vs _ _ _ Hf Hs Hv Hin Hb HM
           (arb_uint_max_finite is64)).
Qed.

(* H1, exclusive bound, both orders, on the witness *)
Theorem arb_float_finite_lower_excl_overflow_panic (lib : fnlib) (d : decl) (is64 : bool)
    (vs : list validator) (bnd : bound) :
  d_family d = FFloat is64 -> d_sans d = [] -> d_validation d = Some (RVStandard vs) ->
  vs = [VFinite; VGreater bnd] \/ vs = [VGreater bnd; VFinite] ->
  f_is_finite is64 (bval d bnd) = true ->
  f_is_finite is64 (f_add is64 (max_finite is64) (bval d bnd)) = false ->
  arb_float lib d (max_finite_bytes is64) = OPanic /\ bytes_ok (max_finite_bytes is64) = true.
Proof.
  intros Hf Hs Hv Hvs _ HM. split; [|exact (bytes_ok_max_finite is64)].
  assert (Hin : In VFinite vs) by (destruct Hvs as [-> | ->]; cbn; tauto).
  assert (Hb : fboundaries d vs None None = (Some {| fb_val := bval d bnd; fb_incl := false |}, None))
    by (destruct Hvs as [-> | ->]; reflexivity).
  exact (arb_float_finite_lower_overflow_panic_in lib d is64 vs _ _ _ Hf Hs Hv Hin Hb HM
           (arb_uint_max_finite is64)).
Qed.

(* with the T3l theorem of ArbFloatExcl.v: the exact characterisation of [finite, >= L] *)
Corollary arb_float_finite_lower_incl_iff (lib : fnlib) (d : decl) (is64 : bool) (vs : list validator)
    (bnd : bound) :
  d_family d = FFloat is64 -> d_sans d = [] -> d_validation d = Some (RVStandard vs) ->
  vs = [VFinite; VGreaterOrEqual bnd] \/ vs = [VGreaterOrEqual bnd; VFinite] ->
  f_is_finite is64 (bval d bnd) = true ->
  ((forall bs, exists x, arb_float lib d bs = OOk (VF x)) <->
   f_is_finite is64 (f_add is64 (max_finite is64) (bval d bnd)) = true).
Proof.
  intros Hf Hs Hv Hvs HL. split.
  - intros Hall.
    destruct (f_is_finite is64 (f_add is64 (max_finite is64) (bval d bnd))) eqn:E; [reflexivity|].
    destruct (Hall (max_finite_bytes is64)) as (x & Hx).
    rewrite (proj1 (arb_float_finite_lower_incl_overflow_panic lib d is64 vs bnd Hf Hs Hv Hvs HL E)) in Hx.
    discriminate Hx.
  - intros HM bs.
    destruct (arb_float_finite_lower_incl_ok lib d is64 vs bnd bs Hf Hs Hv Hvs HL HM) as (x & Hx & _).
    exists x. exact Hx.
Qed.

(* ====================================================================================== *)
(* 4. H2: `finite` beside one upper bound, -MAX + U overflows                             *)
(* ====================================================================================== *)

Theorem arb_float_inner_upper_overflow (is64 : bool) (d : decl) (vs : list validator) (bs : bytes)
    (U : Z) (ui : bool) :
  fboundaries d vs None None = (None, Some {| fb_val := U; fb_incl := ui |}) ->
  f_is_finite is64 U = true ->
  f_is_finite is64 (f_add is64 (fb_neg is64 (max_finite is64)) U) = false ->
  fst (arb_uint (fsize is64) bs) = max_finite is64 ->
  exists x, arb_float_inner is64 d vs bs = Some x /\ f_is_finite is64 x = false.
Proof.
  intros Hb HU HM H0. unfold arb_float_inner. rewrite Hb.
  destruct (base_value_max_finite is64 (base_kind_of vs) bs H0) as [r Hbv]. rewrite Hbv.
  cbn [obind fst fb_val]. unfold adjust_upper. cbn [fb_incl fb_val].
  eexists. split; [reflexivity|].
  pose proof (max_finite_finite is64) as Hc.
  pose proof (finite_not_nan is64 _ Hc) as Hn.
  destruct (f_negabs_spec is64 (max_finite is64)) as (A1 & A2).
  assert (Hle : f_le is64 (f_add is64 (fb_neg is64 (fb_abs is64 (max_finite is64))) U) U = true).
  { apply f_add_le_right; [exact HU | rewrite A1; exact Hn | exact (A2 Hn)]. }
  rewrite fb_abs_max_finite in *.
  destruct ui.
  - assert (Hgt : f_gt is64 (f_add is64 (fb_neg is64 (max_finite is64)) U) U = false).
    { revert Hle. unfold f_le, f_gt. destruct (fcmp is64 _ U) as [[| |]|]; congruence. }
    rewrite Hgt. exact HM.
  - destruct (f_ge is64 (f_add is64 (fb_neg is64 (max_finite is64)) U) U); [|exact HM].
    apply f_sub_not_finite_l. exact HM.
Qed.

Theorem arb_float_finite_upper_overflow_panic_in (lib : fnlib) (d : decl) (is64 : bool)
    (vs : list validator) (U : Z) (ui : bool) (bs : bytes) :
  d_family d = FFloat is64 -> d_sans d = [] -> d_validation d = Some (RVStandard vs) ->
  In VFinite vs ->
  fboundaries d vs None None = (None, Some {| fb_val := U; fb_incl := ui |}) ->
  f_is_finite is64 U = true ->
  f_is_finite is64 (f_add is64 (fb_neg is64 (max_finite is64)) U) = false ->
  fst (arb_uint (fsize is64) bs) = max_finite is64 ->
  arb_float lib d bs = OPanic.
Proof.
  intros Hf Hs Hv Hin Hb HU HM H0.
  destruct (arb_float_inner_upper_overflow is64 d vs bs U ui Hb HU HM H0) as (x & Hi & Hx).
  apply (arb_float_panic_of_check_in lib d is64 Hf vs VFinite bs x Hs Hv Hi Hin).
  unfold check_of. rewrite Hf, Hx. discriminate.
Qed.

(* H2, inclusive bound, both orders, on the witness *)
Theorem arb_float_finite_upper_incl_overflow_panic (lib : fnlib) (d : decl) (is64 : bool)
    (vs : list validator) (bnd : bound) :
  d_family d = FFloat is64 -> d_sans d = [] -> d_validation d = Some (RVStandard vs) ->
  vs = [VFinite; VLessOrEqual bnd] \/ vs = [VLessOrEqual bnd; VFinite] ->
  f_is_finite is64 (bval d bnd) = true ->
  f_is_finite is64 (f_add is64 (fb_neg is64 (max_finite is64)) (bval d bnd)) = false ->
  arb_float lib d (max_finite_bytes is64) = OPanic /\ bytes_ok (max_finite_bytes is64) = true.
Proof.
  intros Hf Hs Hv Hvs HU HM. split; [|exact (bytes_ok_max_finite is64)].
  assert (Hin : In VFinite vs) by (destruct Hvs as [-> | ->]; cbn; tauto).
  assert (Hb : fboundaries d vs None None = (None, Some {| fb_val := bval d bnd; fb_incl := true |}))
    by (destruct Hvs as [-> | ->]; reflexivity).
  exact (arb_float_finite_upper_overflow_panic_in lib d is64 vs _ _ _ Hf Hs Hv Hin Hb HU HM
           (arb_uint_max_finite is64)).
Qed.

(* H2, exclusive bound, both orders, on the witness *)
Theorem arb_float_finite_upper_excl_overflow_panic (lib : fnlib) (d : decl) (is64 : bool)
    (vs : list validator) (bnd : bound) :
  d_family d = FFloat is64 -> d_sans d = [] -> d_validation d = Some (RVStandard vs) ->
  vs = [VFinite; VLess bnd] \/ vs = [VLess bnd; VFinite] ->
  f_is_finite is64 (bval d bnd) = true ->
  f_is_finite is64 (f_add is64 (fb_neg is64 (max_finite is64)) (bval d bnd)) = false ->
  arb_float lib d (max_finite_bytes is64) = OPanic /\ bytes_ok (max_finite_bytes is64) = true.
Proof.
  intros Hf Hs Hv Hvs HU HM. split; [|exact (bytes_ok_max_finite is64)].
  assert (Hin : In VFinite vs) by (destruct Hvs as [-> | ->]; cbn; tauto).
  assert (Hb : fboundaries d vs None None = (None, Some {| fb_val := bval d bnd; fb_incl := false |}))
    by (destruct Hvs as [-> | ->]; reflexivity).
  exact (arb_float_finite_upper_overflow_panic_in lib d is64 vs _ _ _ Hf Hs Hv Hin Hb HU HM
           (arb_uint_max_finite is64)).
Qed.

Corollary arb_float_finite_upper_incl_iff (lib : fnlib) (d : decl) (is64 : bool) (vs : list validator)
    (bnd : bound) :
  d_family d = FFloat is64 -> d_sans d = [] -> d_validation d = Some (RVStandard vs) ->
  vs = [VFinite; VLessOrEqual bnd] \/ vs = [VLessOrEqual bnd; VFinite] ->
  f_is_finite is64 (bval d bnd) = true ->
  ((forall bs, exists x, arb_float lib d bs = OOk (VF x)) <->
   f_is_finite is64 (f_add is64 (fb_neg is64 (max_finite is64)) (bval d bnd)) = true).
Proof.
  intros Hf Hs Hv Hvs HU. split.
  - intros Hall.
    destruct (f_is_finite is64 (f_add is64 (fb_neg is64 (max_finite is64)) (bval d bnd))) eqn:E; [reflexivity|].
    destruct (Hall (max_finite_bytes is64)) as (x & Hx).
    rewrite (proj1 (arb_float_finite_upper_incl_overflow_panic lib d is64 vs bnd Hf Hs Hv Hvs HU E)) in Hx.
    discriminate Hx.
  - intros HM bs.
    destruct (arb_float_finite_upper_incl_ok lib d is64 vs bnd bs Hf Hs Hv Hvs HU HM) as (x & Hx & _).
    exists x. exact Hx.
Qed.

(* ====================================================================================== *)
(* 5. Non-vacuity                                                                         *)
(* ====================================================================================== *)

(* H1: f32, finite, greater_or_equal = 3.0e38 (bits 2137205282), both orders; greater = 3.0e38 *)
Example finite_lower_overflow_instance (lib : fnlib) :
  let d1 := excl_ex false [VFinite; VGreaterOrEqual (BLit 2137205282)] in
  let d2 := excl_ex false [VGreaterOrEqual (BLit 2137205282); VFinite] in
  let d3 := excl_ex false [VFinite; VGreater (BLit 2137205282)] in
  arb_float lib d1 [255; 255; 127; 127] = OPanic /\ arb_float lib d2 [255; 255; 127; 127] = OPanic /\
  arb_float lib d3 [255; 255; 127; 127] = OPanic.
Proof.
  intros d1 d2 d3. split; [|split].
  - apply (arb_float_finite_lower_incl_overflow_panic lib d1 false [VFinite; VGreaterOrEqual (BLit 2137205282)] (BLit 2137205282)).
    + reflexivity.
    + reflexivity.
    + reflexivity.
    + left; reflexivity.
    + vm_compute; reflexivity.
    + vm_compute; reflexivity.
  - apply (arb_float_finite_lower_incl_overflow_panic lib d2 false [VGreaterOrEqual (BLit 2137205282); VFinite] (BLit 2137205282)).
    + reflexivity.
    + reflexivity.
    + reflexivity.
    + right; reflexivity.
    + vm_compute; reflexivity.
    + vm_compute; reflexivity.
  - apply (arb_float_finite_lower_excl_overflow_panic lib d3 false [VFinite; VGreater (BLit 2137205282)] (BLit 2137205282)).
    + reflexivity.
    + reflexivity.
    + reflexivity.
    + left; reflexivity.
    + vm_compute; reflexivity.
    + vm_compute; reflexivity.
Qed.

(* H2: f32, finite, less_or_equal = -3.0e38 (bits 4284688930); f64, less = -MAX, finite *)
Example finite_upper_overflow_instance (lib : fnlib) :
  let d1 := excl_ex false [VFinite; VLessOrEqual (BLit 4284688930)] in
  let d2 := excl_ex true [VLess (BLit 18442240474082181119); VFinite] in
  arb_float lib d1 [255; 255; 127; 127] = OPanic /\
  arb_float lib d2 [255; 255; 255; 255; 255; 255; 239; 127] = OPanic.
Proof.
  intros d1 d2. split.
  - apply (arb_float_finite_upper_incl_overflow_panic lib d1 false [VFinite; VLessOrEqual (BLit 4284688930)] (BLit 4284688930)).
    + reflexivity.
    + reflexivity.
    + reflexivity.
    + left; reflexivity.
    + vm_compute; reflexivity.
    + vm_compute; reflexivity.
  - apply (arb_float_finite_upper_excl_overflow_panic lib d2 true [VLess (BLit 18442240474082181119); VFinite] (BLit 18442240474082181119)).
    + reflexivity.
    + reflexivity.
    + reflexivity.
    + right; reflexivity.
    + vm_compute; reflexivity.
    + vm_compute; reflexivity.
Qed.
