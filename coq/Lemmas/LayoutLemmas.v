(* Attribute layout independence: for the top-level blocks of #[nutype(..)], neither a trailing
   comma nor the order in which the blocks are written changes what an accepted attribute
   parses to.  (Deliberately NOT claimed for the items inside validate(..): their order is
   semantically relevant, see ParseLemmas.parse_validation_keeps_all.) *)
From Coq Require Import Permutation.
From NV Require Import Base.Util Base.IntTy Base.FloatBits Base.Expr
     Macro.Surface Macro.Ast Macro.Parse Lemmas.MacroLemmas.
Local Open Scope string_scope.
Local Open Scope list_scope.

(* ---- the written attribute ----------------------------------------------------------- *)

Inductive wblock :=
| WSanitize (ts : list tok)
| WValidate (ts : list tok)
| WDerive (ts : list tok)
| WDefault (e : expr)
| WConstFn
| WNewUnchecked.

Definition render_block (b : wblock) : list tok :=
  match b with
  | WSanitize ts => [TId "sanitize"; TG ts]
  | WValidate ts => [TId "validate"; TG ts]
  | WDerive ts => [TId "derive"; TG ts]
  | WDefault e => [TId "default"; TEq; TExpr e]
  | WConstFn => [TId "const_fn"]
  | WNewUnchecked => [TId "new_unchecked"]
  end.

(* blocks separated by one comma each *)
Fixpoint render_sep (bs : list wblock) : list tok :=
  match bs with
  | [] => []
  | [b] => render_block b
  | b :: r => render_block b ++ TComma :: render_sep r
  end.

(* .. plus one comma at the end iff [trailing] and there is at least one block *)
Definition render (bs : list wblock) (trailing : bool) : list tok :=
  match bs with
  | [] => []
  | _ => render_sep bs ++ (if trailing then [TComma] else [])
  end.

(* ---- (a) segments of a rendered attribute ------------------------------------------ *)

Definition no_comma (l : list tok) : bool := forallb (fun t => negb (is_comma t)) l.

Lemma render_block_no_comma (b : wblock) : no_comma (render_block b) = true.
Proof. destruct b; reflexivity. Qed.

Lemma render_block_not_nil (b : wblock) : is_nil (render_block b) = false.
Proof. destruct b; reflexivity. Qed.

Lemma split_commas_no_comma (l : list tok) : no_comma l = true -> split_commas l = [l].
Proof.
  induction l as [|t l IH]; [reflexivity|]. unfold no_comma. cbn [forallb].
  rewrite andb_true_iff. intros [Ht Hl]. specialize (IH Hl).
  destruct t; cbn in Ht; try discriminate; cbn [split_commas]; rewrite IH; reflexivity.
Qed.

Lemma split_commas_app_comma (l1 l2 : list tok) :
  no_comma l1 = true -> split_commas (l1 ++ TComma :: l2) = l1 :: split_commas l2.
Proof.
  induction l1 as [|t l1 IH]; [reflexivity|]. unfold no_comma. cbn [forallb].
  rewrite andb_true_iff. intros [Ht Hl]. specialize (IH Hl).
  destruct t; cbn in Ht; try discriminate; cbn [split_commas app]; rewrite IH; reflexivity.
Qed.

Lemma split_commas_render_sep (bs : list wblock) :
  bs <> [] -> split_commas (render_sep bs) = map render_block bs.
Proof.
  induction bs as [|b r IH]; [congruence|]. intros _. destruct r as [|b' r].
  - cbn [render_sep map]. apply split_commas_no_comma, render_block_no_comma.
  - change (render_sep (b :: b' :: r)) with (render_block b ++ TComma :: render_sep (b' :: r)).
    rewrite split_commas_app_comma by apply render_block_no_comma.
    rewrite IH by discriminate. reflexivity.
Qed.

Lemma split_commas_render_sep_trailing (bs : list wblock) :
  bs <> [] -> split_commas (render_sep bs ++ [TComma]) = map render_block bs ++ [[]].
Proof.
  induction bs as [|b r IH]; [congruence|]. intros _. destruct r as [|b' r].
  - cbn [render_sep map]. rewrite split_commas_app_comma by apply render_block_no_comma. reflexivity.
  - change (render_sep (b :: b' :: r)) with (render_block b ++ TComma :: render_sep (b' :: r)).
    rewrite <- app_assoc. cbn [app].
    rewrite split_commas_app_comma by apply render_block_no_comma.
    rewrite IH by discriminate. reflexivity.
Qed.

Lemma segments_snoc (ts : list tok) (front : list (list tok)) (last : list tok) :
  split_commas ts = front ++ [last] ->
  segments ts = if is_nil last then front else front ++ [last].
Proof.
  intros H. unfold segments. rewrite H, rev_app_distr. cbn [rev app].
  destruct (is_nil last); [apply rev_involutive | reflexivity].
Qed.

Theorem segments_render (bs : list wblock) (trailing : bool) :
  segments (render bs trailing) = map render_block bs.
Proof.
  destruct bs as [|b r]; [reflexivity|].
  assert (Hne : b :: r <> []) by discriminate.
  unfold render. destruct trailing.
  - rewrite (segments_snoc _ (map render_block (b :: r)) []); [reflexivity|].
    apply split_commas_render_sep_trailing, Hne.
  - rewrite app_nil_r.
    destruct (exists_last Hne) as (front & lst & E). rewrite E.
    rewrite (segments_snoc _ (map render_block front) (render_block lst)).
    + rewrite render_block_not_nil, map_app. reflexivity.
    + rewrite <- E, split_commas_render_sep by exact Hne. rewrite E, map_app. reflexivity.
Qed.

(* ---- (b) the trailing comma ---------------------------------------------------------- *)

Theorem parse_trailing_comma_irrelevant (ft : features) (fam : family) (bs : list wblock) :
  parse_attrs ft fam (render bs true) = parse_attrs ft fam (render bs false).
Proof. unfold parse_attrs. rewrite !segments_render. reflexivity. Qed.


Corollary parse_attrs_render (ft : features) (fam : family) (bs : list wblock) (trailing : bool) :
  parse_attrs ft fam (render bs trailing) =
  parse_blocks ft fam (map render_block bs)
    {| sn_san := false; sn_val := false; sn_der := false; sn_def := false |} empty_parsed.
Proof. unfold parse_attrs. rewrite segments_render. reflexivity. Qed.

(* ---- (c) order of the blocks ---------------------------------------------------------- *)

(* what one written block does to the parser state *)
Definition step (ft : features) (fam : family) (b : wblock) (sn : seen) (p : parsed)
  : verdict (seen * parsed) :=
  match b with
  | WSanitize ts =>
      if sn_san sn then Reject "parse:duplicate_block" else
      let! ss := parse_terminated (parse_sanitizer fam) ts in
      Accept ({| sn_san := true; sn_val := sn_val sn; sn_der := sn_der sn; sn_def := sn_def sn |},
              {| p_sans := ss; p_validation := p_validation p; p_new_unchecked := p_new_unchecked p;
                 p_const_fn := p_const_fn p; p_default := p_default p; p_derives := p_derives p |})
  | WValidate ts =>
      if sn_val sn then Reject "parse:duplicate_block" else
      let! v := parse_validation ft fam ts in
      Accept ({| sn_san := sn_san sn; sn_val := true; sn_der := sn_der sn; sn_def := sn_def sn |},
              {| p_sans := p_sans p; p_validation := Some v; p_new_unchecked := p_new_unchecked p;
                 p_const_fn := p_const_fn p; p_default := p_default p; p_derives := p_derives p |})
  | WDerive ts =>
      if sn_der sn then Reject "parse:duplicate_block" else
      let! ds := parse_terminated (parse_trait ft) ts in
      Accept ({| sn_san := sn_san sn; sn_val := sn_val sn; sn_der := true; sn_def := sn_def sn |},
              {| p_sans := p_sans p; p_validation := p_validation p; p_new_unchecked := p_new_unchecked p;
                 p_const_fn := p_const_fn p; p_default := p_default p; p_derives := ds |})
  | WDefault e =>
      if sn_def sn then Reject "parse:duplicate_block" else
      Accept ({| sn_san := sn_san sn; sn_val := sn_val sn; sn_der := sn_der sn; sn_def := true |},
              {| p_sans := p_sans p; p_validation := p_validation p; p_new_unchecked := p_new_unchecked p;
                 p_const_fn := p_const_fn p; p_default := Some e; p_derives := p_derives p |})
  | WConstFn =>
      Accept (sn,
              {| p_sans := p_sans p; p_validation := p_validation p; p_new_unchecked := p_new_unchecked p;
                 p_const_fn := true; p_default := p_default p; p_derives := p_derives p |})
  | WNewUnchecked =>
      if ft_new_unchecked ft then
        Accept (sn,
                {| p_sans := p_sans p; p_validation := p_validation p; p_new_unchecked := true;
                   p_const_fn := p_const_fn p; p_default := p_default p; p_derives := p_derives p |})
      else Reject "parse:new_unchecked_feature"
  end.

(* the accumulator / seen generalisation: parse_blocks on rendered blocks is the fold of [step],
   from ANY starting state *)
Lemma parse_blocks_render_cons (ft : features) (fam : family) (b : wblock) (rest : list (list tok))
      (sn : seen) (p : parsed) :
  parse_blocks ft fam (render_block b :: rest) sn p =
  let! st := step ft fam b sn p in parse_blocks ft fam rest (fst st) (snd st).
Proof.
  destruct b; cbn.
  - destruct (sn_san sn); [reflexivity|]. destruct (parse_terminated (parse_sanitizer fam) ts); reflexivity.
  - destruct (sn_val sn); [reflexivity|]. destruct (parse_validation ft fam ts); reflexivity.
  - destruct (sn_der sn); [reflexivity|]. destruct (parse_terminated (parse_trait ft) ts); reflexivity.
  - destruct (sn_def sn); reflexivity.
  - reflexivity.
  - destruct (ft_new_unchecked ft); reflexivity.
Qed.

Definition run (ft : features) (fam : family) (bs : list wblock) (sn : seen) (p : parsed) : verdict parsed :=
  parse_blocks ft fam (map render_block bs) sn p.

Lemma run_cons (ft : features) (fam : family) (b : wblock) (bs : list wblock) (sn : seen) (p : parsed) :
  run ft fam (b :: bs) sn p = let! st := step ft fam b sn p in run ft fam bs (fst st) (snd st).
Proof. unfold run. cbn [map]. apply parse_blocks_render_cons. Qed.

(* two successful steps commute *)
Lemma step_swap (ft : features) (fam : family) (x y : wblock) (sn : seen) (p : parsed) (s1 s2 : seen * parsed) :
  step ft fam x sn p = Accept s1 -> step ft fam y (fst s1) (snd s1) = Accept s2 ->
  exists s1', step ft fam y sn p = Accept s1' /\ step ft fam x (fst s1') (snd s1') = Accept s2.
Proof.
  destruct sn as [a b c d], p as [ps pv pn pc pd pr].
  Local Ltac crunch H :=
    cbn in H;
    repeat match type of H with
           | context [if ?b then _ else _] => destruct b; cbn in H
           | context [vbind ?m _] => destruct m; cbn in H
           end;
    try discriminate H; injection H as <-; cbn.
  destruct x, y; cbn; intros H1; crunch H1; intros H2; crunch H2;
    try (eexists; split; reflexivity).
Qed.

Lemma run_swap (ft : features) (fam : family) (x y : wblock) (bs : list wblock) (sn : seen) (p q : parsed) :
  run ft fam (x :: y :: bs) sn p = Accept q -> run ft fam (y :: x :: bs) sn p = Accept q.
Proof.
  rewrite !run_cons. intros H.
  apply vbind_accept in H. destruct H as (s1 & H1 & H). rewrite run_cons in H.
  apply vbind_accept in H. destruct H as (s2 & H2 & H).
  destruct (step_swap _ _ _ _ _ _ _ _ H1 H2) as (s1' & Hy & Hx).
  rewrite Hy. cbn [vbind]. rewrite run_cons, Hx. exact H.
Qed.

Lemma run_perm_accept (ft : features) (fam : family) (bs1 bs2 : list wblock) :
  Permutation bs1 bs2 ->
  forall sn p q, run ft fam bs1 sn p = Accept q -> run ft fam bs2 sn p = Accept q.
Proof.
  induction 1 as [|x l l' _ IH|x y l|l l' l'' _ IH1 _ IH2]; intros sn p q H.
  - exact H.
  - rewrite run_cons in *. apply vbind_accept in H. destruct H as (s & Hs & H).
    rewrite Hs. cbn [vbind]. apply IH, H.
  - apply run_swap, H.
  - apply IH2, IH1, H.
Qed.

(* order independence, first form: an accepted attribute parses to the same record however its
   blocks are ordered and whether or not a trailing comma is written *)
Theorem parse_order_irrelevant (ft : features) (fam : family) (bs1 bs2 : list wblock) (t1 t2 : bool) (p : parsed) :
  Permutation bs1 bs2 ->
  parse_attrs ft fam (render bs1 t1) = Accept p ->
  parse_attrs ft fam (render bs2 t2) = Accept p.
Proof.
  intros HP. rewrite !parse_attrs_render. apply (run_perm_accept ft fam bs1 bs2 HP).
Qed.

Corollary parse_order_irrelevant_eq (ft : features) (fam : family) (bs1 bs2 : list wblock) (t1 t2 : bool) :
  Permutation bs1 bs2 ->
  (exists p, parse_attrs ft fam (render bs1 t1) = Accept p) ->
  parse_attrs ft fam (render bs1 t1) = parse_attrs ft fam (render bs2 t2).
Proof.
  intros HP [p H]. rewrite H. symmetry. eapply parse_order_irrelevant; eassumption.
Qed.

(* second form: acceptance itself does not depend on the order *)
Theorem parse_accept_order_irrelevant (ft : features) (fam : family) (bs1 bs2 : list wblock) (t1 t2 : bool) :
  Permutation bs1 bs2 ->
  forall p, parse_attrs ft fam (render bs1 t1) = Accept p <-> parse_attrs ft fam (render bs2 t2) = Accept p.
Proof.
  intros HP p. split; apply parse_order_irrelevant; [exact HP | apply Permutation_sym, HP].
Qed.

(* .. hence neither does rejection (only the reported class may) *)
Corollary parse_reject_order_irrelevant (ft : features) (fam : family) (bs1 bs2 : list wblock) (t1 t2 : bool) :
  Permutation bs1 bs2 ->
  (exists c, parse_attrs ft fam (render bs1 t1) = Reject c) <->
  (exists c, parse_attrs ft fam (render bs2 t2) = Reject c).
Proof.
  intros HP.
  assert (G : forall a b u v, Permutation a b ->
              (exists c, parse_attrs ft fam (render a u) = Reject c) ->
              exists c, parse_attrs ft fam (render b v) = Reject c).
  { intros a b u v Hab [c Hc]. destruct (parse_attrs ft fam (render b v)) as [p|c'] eqn:E; [|eauto].
    apply (parse_order_irrelevant ft fam b a v u p (Permutation_sym Hab)) in E. congruence. }
  split; apply G; [exact HP | apply Permutation_sym, HP].
Qed.


(* ---- what an accepted attribute parses to, stated without reference to the order ------- *)

Fixpoint sans_of (bs : list wblock) : list (list tok) :=
  match bs with [] => [] | WSanitize ts :: r => ts :: sans_of r | _ :: r => sans_of r end.
Fixpoint vals_of (bs : list wblock) : list (list tok) :=
  match bs with [] => [] | WValidate ts :: r => ts :: vals_of r | _ :: r => vals_of r end.
Fixpoint ders_of (bs : list wblock) : list (list tok) :=
  match bs with [] => [] | WDerive ts :: r => ts :: ders_of r | _ :: r => ders_of r end.
Fixpoint defs_of (bs : list wblock) : list expr :=
  match bs with [] => [] | WDefault e :: r => e :: defs_of r | _ :: r => defs_of r end.
Definition is_const_fn (b : wblock) : bool := match b with WConstFn => true | _ => false end.
Definition is_new_unchecked (b : wblock) : bool := match b with WNewUnchecked => true | _ => false end.

(* from any starting state: each valued kind occurs at most once (and not at all if already
   seen), its inner parse accepts and is what the record holds; the flags are disjunctions *)
Lemma run_accept_char (ft : features) (fam : family) (bs : list wblock) : forall sn p q,
  run ft fam bs sn p = Accept q ->
  match sans_of bs with
  | [] => p_sans q = p_sans p
  | [ts] => sn_san sn = false /\ parse_terminated (parse_sanitizer fam) ts = Accept (p_sans q)
  | _ => False
  end /\
  match vals_of bs with
  | [] => p_validation q = p_validation p
  | [ts] => sn_val sn = false /\ exists v, parse_validation ft fam ts = Accept v /\ p_validation q = Some v
  | _ => False
  end /\
  match ders_of bs with
  | [] => p_derives q = p_derives p
  | [ts] => sn_der sn = false /\ parse_terminated (parse_trait ft) ts = Accept (p_derives q)
  | _ => False
  end /\
  match defs_of bs with
  | [] => p_default q = p_default p
  | [e] => sn_def sn = false /\ p_default q = Some e
  | _ => False
  end /\
  p_const_fn q = p_const_fn p || existsb is_const_fn bs /\
  p_new_unchecked q = p_new_unchecked p || existsb is_new_unchecked bs /\
  (existsb is_new_unchecked bs = true -> ft_new_unchecked ft = true).
Proof.
  induction bs as [|b bs IH]; intros sn p q H.
  - injection H as <-. cbn. rewrite !orb_false_r. repeat split; discriminate.
  - rewrite run_cons in H. apply vbind_accept in H. destruct H as ([sn' p'] & Hs & H).
    cbn [fst snd] in H. apply IH in H. clear IH.
    destruct H as (Hsan & Hval & Hder & Hdef & Hcf & Hnu & Hft).
    destruct b; cbn [step] in Hs; cbn [sans_of vals_of ders_of defs_of existsb is_const_fn is_new_unchecked].
    + destruct (sn_san sn) eqn:E; [discriminate|]. apply vbind_accept in Hs. destruct Hs as (ss & Hss & Hs).
      injection Hs as <- <-. cbn in *. repeat split; try assumption.
      destruct (sans_of bs) as [|t [|t' r]]; [|destruct Hsan; discriminate|contradiction].
      split; [reflexivity|]. rewrite Hsan. exact Hss.
    + destruct (sn_val sn) eqn:E; [discriminate|]. apply vbind_accept in Hs. destruct Hs as (v & Hv & Hs).
      injection Hs as <- <-. cbn in *. repeat split; try assumption.
      destruct (vals_of bs) as [|t [|t' r]]; [|destruct Hval; discriminate|contradiction].
      split; [reflexivity|]. exists v. split; assumption.
    + destruct (sn_der sn) eqn:E; [discriminate|]. apply vbind_accept in Hs. destruct Hs as (ds & Hds & Hs).
      injection Hs as <- <-. cbn in *. repeat split; try assumption.
      destruct (ders_of bs) as [|t [|t' r]]; [|destruct Hder; discriminate|contradiction].
      split; [reflexivity|]. rewrite Hder. exact Hds.
    + destruct (sn_def sn) eqn:E; [discriminate|].
      injection Hs as <- <-. cbn in *. repeat split; try assumption.
      destruct (defs_of bs) as [|t [|t' r]]; [|destruct Hdef; discriminate|contradiction].
      split; [reflexivity|]. exact Hdef.
    + injection Hs as <- <-. cbn in *. rewrite orb_true_r. repeat split; assumption.
    + destruct (ft_new_unchecked ft) eqn:E; [|discriminate].
      injection Hs as <- <-. cbn in *. rewrite orb_true_r. repeat split; assumption.
Qed.

Theorem parse_attrs_accept_char (ft : features) (fam : family) (bs : list wblock) (t : bool) (q : parsed) :
  parse_attrs ft fam (render bs t) = Accept q ->
  match sans_of bs with
  | [] => p_sans q = []
  | [ts] => parse_terminated (parse_sanitizer fam) ts = Accept (p_sans q)
  | _ => False
  end /\
  match vals_of bs with
  | [] => p_validation q = None
  | [ts] => exists v, parse_validation ft fam ts = Accept v /\ p_validation q = Some v
  | _ => False
  end /\
  match ders_of bs with
  | [] => p_derives q = []
  | [ts] => parse_terminated (parse_trait ft) ts = Accept (p_derives q)
  | _ => False
  end /\
  match defs_of bs with
  | [] => p_default q = None
  | [e] => p_default q = Some e
  | _ => False
  end /\
  p_const_fn q = existsb is_const_fn bs /\
  p_new_unchecked q = existsb is_new_unchecked bs /\
  (existsb is_new_unchecked bs = true -> ft_new_unchecked ft = true).
Proof.
  rewrite parse_attrs_render. intros H. apply run_accept_char in H. cbn in H.
  destruct H as (Hsan & Hval & Hder & Hdef & Hcf & Hnu & Hft).
  repeat split; try assumption.
  - destruct (sans_of bs) as [|t0 [|t1 r]]; [assumption|apply Hsan|contradiction].
  - destruct (vals_of bs) as [|t0 [|t1 r]]; [assumption|apply Hval|contradiction].
  - destruct (ders_of bs) as [|t0 [|t1 r]]; [assumption|apply Hder|contradiction].
  - destruct (defs_of bs) as [|t0 [|t1 r]]; [assumption|apply Hdef|contradiction].
Qed.

(* the restriction to accepted attributes is needed: with two faulty blocks the class reported
   is that of the one written first *)
Definition ft_none : features :=
  {| ft_std := true; ft_serde := false; ft_regex := false; ft_arbitrary := false;
     ft_new_unchecked := false; ft_schemars := false |}.

Example reject_class_depends_on_order :
  parse_attrs ft_none FStr (render [WNewUnchecked; WSanitize [TId "bogus"]] false)
    = Reject "parse:new_unchecked_feature" /\
  parse_attrs ft_none FStr (render [WSanitize [TId "bogus"]; WNewUnchecked] false)
    = Reject "parse:unknown_sanitizer".
Proof. split; reflexivity. Qed.
