(* C02, written order end to end: the sanitizers run, and the validators are checked, in the
   order in which they are WRITTEN inside sanitize(..) / validate(..); no written rule is
   dropped, duplicated or reordered anywhere between the token tree and the constructor.

     O1  sanitize(..) group : accepted result = position-wise image of the written items
     O2  validate(..) group : the same for the standard validators
     O3  the rest of the front end (validate_guard / validate_traits / gen_checks /
         rustc_checks) only judges: the declaration holds the very lists the parser produced
     O4  execution: the stored value is the left fold of the WRITTEN sanitizers in written
         order, the reported variant is that of the first WRITTEN validator that fails.

   (A macro that sorted or partitioned either list, e.g. moved `trim` to the front, would
   falsify O1/O2 resp. O3; see the examples at the end.) *)
From Coq Require Import Permutation.
From NV Require Import Base.Util Base.IntTy Base.FloatBits Base.Float Base.Expr
     Macro.Surface Macro.Ast Macro.Parse Macro.Validate Sem.Guard Sem.Value Sem.Eval Spec.GuardSpec
     Lemmas.GuardLemmas Lemmas.DeclLemmas Lemmas.MacroLemmas Lemmas.ParseLemmas Lemmas.LayoutLemmas
     Run.Runner.
Local Open Scope string_scope.
Local Open Scope list_scope.

(* ======================================================================================= *)
(* generic: a comma separated list of written items                                         *)
(* ======================================================================================= *)

Section Items.
  Context {W : Type}.
  Variable r : W -> list tok.

  (* items separated by one comma each *)
  Fixpoint render_items_sep (ws : list W) : list tok :=
    match ws with
    | [] => []
    | [w] => r w
    | w :: rest => r w ++ TComma :: render_items_sep rest
    end.

  (* .. plus one comma at the end iff [trailing] and there is at least one item *)
  Definition render_items (ws : list W) (trailing : bool) : list tok :=
    match ws with
    | [] => []
    | _ => render_items_sep ws ++ (if trailing then [TComma] else [])
    end.

  Hypothesis r_no_comma : forall w, no_comma (r w) = true.
  Hypothesis r_not_nil : forall w, is_nil (r w) = false.

  Lemma split_commas_items_sep (ws : list W) :
    ws <> [] -> split_commas (render_items_sep ws) = map r ws.
  Proof.
    induction ws as [|w rest IH]; [congruence|]. intros _. destruct rest as [|w' rest].
    - cbn [render_items_sep map]. apply split_commas_no_comma, r_no_comma.
    - change (render_items_sep (w :: w' :: rest)) with (r w ++ TComma :: render_items_sep (w' :: rest)).
      rewrite split_commas_app_comma by apply r_no_comma.
      rewrite IH by discriminate. reflexivity.
  Qed.

  Lemma split_commas_items_sep_trailing (ws : list W) :
    ws <> [] -> split_commas (render_items_sep ws ++ [TComma]) = map r ws ++ [[]].
  Proof.
    induction ws as [|w rest IH]; [congruence|]. intros _. destruct rest as [|w' rest].
    - cbn [render_items_sep map]. rewrite split_commas_app_comma by apply r_no_comma. reflexivity.
    - change (render_items_sep (w :: w' :: rest)) with (r w ++ TComma :: render_items_sep (w' :: rest)).
      rewrite <- app_assoc. cbn [app].
      rewrite split_commas_app_comma by apply r_no_comma.
      rewrite IH by discriminate. reflexivity.
  Qed.

  (* the segments the macro's parse_terminated sees are exactly the written items, in order *)
  Theorem segments_render_items (ws : list W) (trailing : bool) :
    segments (render_items ws trailing) = map r ws.
  Proof.
    destruct ws as [|w rest]; [reflexivity|].
    assert (Hne : w :: rest <> []) by discriminate.
    unfold render_items. destruct trailing.
    - rewrite (segments_snoc _ (map r (w :: rest)) []); [reflexivity|].
      apply split_commas_items_sep_trailing, Hne.
    - rewrite app_nil_r.
      destruct (exists_last Hne) as (front & lst & E). rewrite E.
      rewrite (segments_snoc _ (map r front) (r lst)).
      + rewrite r_not_nil, map_app. reflexivity.
      + rewrite <- E, split_commas_items_sep by exact Hne. rewrite E, map_app. reflexivity.
  Qed.

  Corollary parse_terminated_render_items {X} (p : list tok -> verdict X) (ws : list W) (trailing : bool) :
    parse_terminated p (render_items ws trailing) = vmap p (map r ws).
  Proof. unfold parse_terminated. rewrite segments_render_items. reflexivity. Qed.
End Items.

Lemma render_items_map {A B} (f : A -> B) (r : B -> list tok) (l : list A) (t : bool) :
  render_items r (map f l) t = render_items (fun a => r (f a)) l t.
Proof.
  assert (E : render_items_sep r (map f l) = render_items_sep (fun a => r (f a)) l).
  { induction l as [|a l IH]; [reflexivity|]. destruct l as [|a' l]; [reflexivity|].
    change (r (f a) ++ TComma :: render_items_sep r (map f (a' :: l)) =
            r (f a) ++ TComma :: render_items_sep (fun a => r (f a)) (a' :: l)).
    rewrite IH. reflexivity. }
  destruct l as [|a l]; [reflexivity|]. unfold render_items. cbn [map]. cbn [map] in E. rewrite E. reflexivity.
Qed.

(* vmap is position-wise: same length, same order, one result per input *)
Lemma vmap_accept_Forall2 {X Y} (f : X -> verdict Y) (l : list X) (ys : list Y) :
  vmap f l = Accept ys <-> Forall2 (fun x y => f x = Accept y) l ys.
Proof.
  revert ys. induction l as [|a l IH]; intros ys; cbn [vmap].
  - split; [intros H; injection H as <-; constructor | intros H; inversion H; reflexivity].
  - split.
    + intros H. apply vbind_accept in H. destruct H as (b & Hb & H).
      apply vbind_accept in H. destruct H as (bs & Hbs & H). injection H as <-.
      constructor; [exact Hb | apply IH, Hbs].
    + intros H. inversion H as [|? y ? ys' Hy Hrest]; subst.
      rewrite Hy. cbn [vbind]. apply IH in Hrest. rewrite Hrest. reflexivity.
Qed.

Lemma vmap_map_image {W X Y} (r : W -> X) (p : X -> verdict Y) (sem : W -> Y) (ws : list W) (ys : list Y) :
  (forall w y, p (r w) = Accept y -> y = sem w) ->
  vmap p (map r ws) = Accept ys -> ys = map sem ws.
Proof.
  intros Hp. revert ys. induction ws as [|w ws IH]; intros ys H; cbn [map vmap] in H.
  - injection H as <-. reflexivity.
  - apply vbind_accept in H. destruct H as (b & Hb & H).
    apply vbind_accept in H. destruct H as (bs & Hbs & H). injection H as <-.
    cbn [map]. rewrite (Hp _ _ Hb), (IH _ Hbs). reflexivity.
Qed.

Lemma vmap_map_exact {W X Y} (r : W -> X) (p : X -> verdict Y) (ok : W -> bool) (sem : W -> Y)
      (ws : list W) (ys : list Y) :
  (forall w, if ok w then p (r w) = Accept (sem w) else exists c, p (r w) = Reject c) ->
  vmap p (map r ws) = Accept ys <-> forallb ok ws = true /\ ys = map sem ws.
Proof.
  intros Hp. revert ys. induction ws as [|w ws IH]; intros ys; cbn [map vmap forallb].
  - split; [intros H; injection H as <-; auto | intros [_ ->]; reflexivity].
  - specialize (Hp w). destruct (ok w).
    + rewrite Hp. cbn [vbind andb]. split.
      * intros H. apply vbind_accept in H. destruct H as (bs & Hbs & H). injection H as <-.
        apply IH in Hbs. destruct Hbs as [Hok ->]. auto.
      * intros [Hok ->]. assert (H : vmap p (map r ws) = Accept (map sem ws)) by (apply IH; auto).
        rewrite H. reflexivity.
    + destruct Hp as [c Hc]. rewrite Hc. cbn [vbind andb]. split; [discriminate | intros [H _]; discriminate].
Qed.

(* ======================================================================================= *)
(* O1: the items of sanitize(..)                                                            *)
(* ======================================================================================= *)

(* one constructor per spelling Parse.parse_sanitizer accepts *)
Inductive sitem := WTrim | WLowercase | WUppercase | WWith (f : fnref).

Definition render_sitem (w : sitem) : list tok :=
  match w with
  | WTrim => [TId "trim"]
  | WLowercase => [TId "lowercase"]
  | WUppercase => [TId "uppercase"]
  | WWith f => [TId "with"; TEq; TFn f]
  end.

Definition sem_sitem (w : sitem) : sanitizer :=
  match w with
  | WTrim => STrim
  | WLowercase => SLowercase
  | WUppercase => SUppercase
  | WWith f => SWith f
  end.

(* trim / lowercase / uppercase exist for String only; `with` for every inner type *)
Definition sitem_ok (fam : family) (w : sitem) : bool :=
  match w with WWith _ => true | _ => is_str fam end.

Lemma render_sitem_no_comma (w : sitem) : no_comma (render_sitem w) = true.
Proof. destruct w; reflexivity. Qed.
Lemma render_sitem_not_nil (w : sitem) : is_nil (render_sitem w) = false.
Proof. destruct w; reflexivity. Qed.

Lemma parse_sitem (fam : family) (w : sitem) :
  if sitem_ok fam w then parse_sanitizer fam (render_sitem w) = Accept (sem_sitem w)
  else exists c, parse_sanitizer fam (render_sitem w) = Reject c.
Proof. destruct w, fam; cbn; eauto. Qed.

Lemma parse_sitem_accept (fam : family) (w : sitem) (s : sanitizer) :
  parse_sanitizer fam (render_sitem w) = Accept s -> s = sem_sitem w.
Proof.
  pose proof (parse_sitem fam w) as H. destruct (sitem_ok fam w).
  - rewrite H. intros E. injection E as <-. reflexivity.
  - destruct H as [c ->]. discriminate.
Qed.

(* the tokens written inside sanitize( .. ) *)
Definition render_sanitize_group (items : list sitem) (trailing : bool) : list tok :=
  render_items render_sitem items trailing.

(* O1: whatever the group parser accepts is the written list, item by item *)
Theorem sanitize_group_written_order (fam : family) (items : list sitem) (trailing : bool) (ss : list sanitizer) :
  parse_terminated (parse_sanitizer fam) (render_sanitize_group items trailing) = Accept ss ->
  ss = map sem_sitem items.
Proof.
  unfold render_sanitize_group.
  rewrite (parse_terminated_render_items _ render_sitem_no_comma render_sitem_not_nil).
  apply vmap_map_image. apply parse_sitem_accept.
Qed.

(* .. and it accepts exactly when every item exists for the inner type *)
Theorem sanitize_group_accept_iff (fam : family) (items : list sitem) (trailing : bool) (ss : list sanitizer) :
  parse_terminated (parse_sanitizer fam) (render_sanitize_group items trailing) = Accept ss <->
  forallb (sitem_ok fam) items = true /\ ss = map sem_sitem items.
Proof.
  unfold render_sanitize_group.
  rewrite (parse_terminated_render_items _ render_sitem_no_comma render_sitem_not_nil).
  apply vmap_map_exact. apply parse_sitem.
Qed.

Corollary sanitize_group_length (fam : family) (items : list sitem) (trailing : bool) (ss : list sanitizer) :
  parse_terminated (parse_sanitizer fam) (render_sanitize_group items trailing) = Accept ss ->
  List.length ss = List.length items /\
  forall i w, nth_error items i = Some w -> nth_error ss i = Some (sem_sitem w).
Proof.
  intros H. apply sanitize_group_written_order in H. subst ss. split; [apply map_length|].
  intros i w Hi. apply map_nth_error. exact Hi.
Qed.

(* distinct written lists (a permutation, a dropped or a doubled item) never parse to the same
   sanitizer list: the parse of an accepted group determines what was written *)
Lemma sem_sitem_inj (a b : sitem) : sem_sitem a = sem_sitem b -> a = b.
Proof. destruct a, b; cbn; congruence. Qed.

Corollary sanitize_group_injective (fam : family) (items1 items2 : list sitem) (t1 t2 : bool) (ss : list sanitizer) :
  parse_terminated (parse_sanitizer fam) (render_sanitize_group items1 t1) = Accept ss ->
  parse_terminated (parse_sanitizer fam) (render_sanitize_group items2 t2) = Accept ss ->
  items1 = items2.
Proof.
  intros H1 H2. apply sanitize_group_written_order in H1, H2. subst ss.
  revert items2 H2. induction items1 as [|a l IH]; intros [|b l'] H; try discriminate; [reflexivity|].
  cbn [map] in H. injection H as Ha Hl. apply sem_sitem_inj in Ha. subst. f_equal. apply IH, Hl.
Qed.

(* ======================================================================================= *)
(* O2: the items of validate(..)                                                            *)
(* ======================================================================================= *)

(* one constructor per spelling of a STANDARD validator Parse.parse_validate_attr accepts;
   bounds are written as expressions (a literal is the expression [ELit l] / [ENeg (ELit l)]) *)
Inductive vitem :=
| WGreater (e : expr) | WGreaterOrEqual (e : expr) | WLess (e : expr) | WLessOrEqual (e : expr)
| WLenCharMin (e : expr) | WLenCharMax (e : expr)
| WPredicate (f : fnref) | WFinite | WNotEmpty
| WRegexLit (s : list N) | WRegexPath (p : string).

(* everything that may be written inside validate(..): a standard validator, or one half of
   the custom pair `with = f, error = E` *)
Inductive gitem := GStd (w : vitem) | GWith (f : fnref) | GError (p : string).

Definition render_vitem (w : vitem) : list tok :=
  match w with
  | WGreater e => [TId "greater"; TEq; TExpr e]
  | WGreaterOrEqual e => [TId "greater_or_equal"; TEq; TExpr e]
  | WLess e => [TId "less"; TEq; TExpr e]
  | WLessOrEqual e => [TId "less_or_equal"; TEq; TExpr e]
  | WLenCharMin e => [TId "len_char_min"; TEq; TExpr e]
  | WLenCharMax e => [TId "len_char_max"; TEq; TExpr e]
  | WPredicate f => [TId "predicate"; TEq; TFn f]
  | WFinite => [TId "finite"]
  | WNotEmpty => [TId "not_empty"]
  | WRegexLit s => [TId "regex"; TEq; TStr s]
  | WRegexPath p => [TId "regex"; TEq; TPath p]
  end.

Definition render_gitem (g : gitem) : list tok :=
  match g with
  | GStd w => render_vitem w
  | GWith f => [TId "with"; TEq; TFn f]
  | GError p => [TId "error"; TEq; TPath p]
  end.

(* the bound a written expression stands for: the literal value when the macro can read one
   (Parse.parse_bound), otherwise the expression itself, spliced verbatim.  [wbound_denotes_*]
   below: at run time it is in every case the value the written expression denotes. *)
Definition wbound (fam : family) (e : expr) : bound :=
  match parse_bound fam e with Accept b => b | Reject _ => BExpr e end.

Definition sem_vitem (fam : family) (w : vitem) : validator :=
  match w with
  | WGreater e => VGreater (wbound fam e)
  | WGreaterOrEqual e => VGreaterOrEqual (wbound fam e)
  | WLess e => VLess (wbound fam e)
  | WLessOrEqual e => VLessOrEqual (wbound fam e)
  | WLenCharMin e => VLenCharMin (wbound fam e)
  | WLenCharMax e => VLenCharMax (wbound fam e)
  | WPredicate f => VPredicate f
  | WFinite => VFinite
  | WNotEmpty => VNotEmpty
  | WRegexLit s => VRegex (RLit s)
  | WRegexPath p => VRegex (RPath p)
  end.

Definition sem_gitem (fam : family) (g : gitem) : vattr :=
  match g with
  | GStd w => VAStd (sem_vitem fam w)
  | GWith f => VAWith f
  | GError p => VAError p
  end.

(* the kind (= error variant) of a written validator is purely syntactic *)
Definition kind_vitem (w : vitem) : vkind :=
  match w with
  | WGreater _ => KGreater | WGreaterOrEqual _ => KGreaterOrEqual | WLess _ => KLess
  | WLessOrEqual _ => KLessOrEqual | WLenCharMin _ => KLenCharMin | WLenCharMax _ => KLenCharMax
  | WPredicate _ => KPredicate | WFinite => KFinite | WNotEmpty => KNotEmpty
  | WRegexLit _ | WRegexPath _ => KRegex
  end.

Lemma vkind_sem_vitem (fam : family) (w : vitem) : vkind_of (sem_vitem fam w) = kind_vitem w.
Proof. destruct w; reflexivity. Qed.

Lemma render_gitem_no_comma (g : gitem) : no_comma (render_gitem g) = true.
Proof. destruct g as [w| |]; [destruct w|..]; reflexivity. Qed.
Lemma render_gitem_not_nil (g : gitem) : is_nil (render_gitem g) = false.
Proof. destruct g as [w| |]; [destruct w|..]; reflexivity. Qed.

Lemma parse_bound_wbound (fam : family) (e : expr) (b : bound) :
  parse_bound fam e = Accept b -> b = wbound fam e.
Proof. unfold wbound. intros ->. reflexivity. Qed.

Lemma bound_bind_accept (fam : family) (e : expr) (mk : bound -> validator) (a : vattr) :
  (let! b := parse_bound fam e in Accept (VAStd (mk b))) = Accept a -> a = VAStd (mk (wbound fam e)).
Proof.
  intros H. apply vbind_accept in H. destruct H as (b & Hb & H). injection H as <-.
  rewrite (parse_bound_wbound _ _ _ Hb). reflexivity.
Qed.

(* every accepted written item parses to its own meaning, nothing else *)
Lemma parse_gitem_accept (ft : features) (fam : family) (g : gitem) (a : vattr) :
  parse_validate_attr ft fam (render_gitem g) = Accept a -> a = sem_gitem fam g.
Proof.
  destruct g as [w|f|p]; [destruct w|..];
    cbn [render_gitem render_vitem parse_validate_attr sem_gitem sem_vitem];
    cbn [String.eqb Ascii.eqb Bool.eqb andb orb];
    destruct (is_numeric fam), (is_str fam), (is_float fam), (ft_regex ft);
    cbn [andb orb]; intros H;
    try discriminate H;
    try (apply bound_bind_accept in H; exact H);
    try (injection H as <-; reflexivity).
Qed.

Fixpoint all_std (l : list vattr) : bool :=
  match l with [] => true | VAStd _ :: r => all_std r | _ :: _ => false end.

Lemma collect_vattrs_flags (l : list vattr) : forall acc w e vs w' e',
  collect_vattrs l acc w e = Accept (vs, w', e') ->
  (w' = None -> w = None) /\ (e' = None -> e = None) /\
  (w' = None -> e' = None -> all_std l = true).
Proof.
  induction l as [|a l IH]; intros acc w e vs w' e' H; cbn [collect_vattrs] in H.
  - injection H as _ <- <-. cbn. auto.
  - destruct a as [v|f|p]; cbn [all_std].
    + apply IH in H. exact H.
    + destruct w; [discriminate|]. apply IH in H. destruct H as (H1 & H2 & H3).
      repeat split; auto. intros Hw. specialize (H1 Hw). discriminate.
    + destruct e; [discriminate|]. apply IH in H. destruct H as (H1 & H2 & H3).
      repeat split; auto. intros _ He. specialize (H2 He). discriminate.
Qed.

(* ParseLemmas.parse_validation_keeps_all, plus: a standard result has no with / error item *)
Lemma parse_validation_std_inv (ft : features) (fam : family) (ts : list tok) (vs : list validator) :
  parse_validation ft fam ts = Accept (RVStandard vs) ->
  exists attrs, parse_terminated (parse_validate_attr ft fam) ts = Accept attrs /\
                vs = std_of attrs /\ all_std attrs = true.
Proof.
  unfold parse_validation. intros H.
  apply vbind_accept in H. destruct H as (attrs & Ha & H).
  apply vbind_accept in H. destruct H as ([[vs' w] e] & Hc & H).
  exists attrs. split; [exact Ha|].
  pose proof (collect_vattrs_keeps _ _ _ _ _ _ _ Hc) as Hk. cbn in Hk. subst vs'.
  apply collect_vattrs_flags in Hc. destruct Hc as (_ & _ & Hall).
  destruct (std_of attrs) as [|v r]; destruct w, e; try discriminate; injection H as <-; auto.
Qed.

Lemma all_std_image (fam : family) (gitems : list gitem) :
  all_std (map (sem_gitem fam) gitems) = true ->
  exists ws, gitems = map GStd ws /\ std_of (map (sem_gitem fam) gitems) = map (sem_vitem fam) ws.
Proof.
  induction gitems as [|g gs IH]; cbn [map all_std std_of].
  - exists []. auto.
  - destruct g as [w|f|p]; cbn [sem_gitem]; try discriminate.
    intros H. destruct (IH H) as (ws & -> & E). exists (w :: ws). cbn [map]. rewrite E. auto.
Qed.

Definition render_validate_group (gitems : list gitem) (trailing : bool) : list tok :=
  render_items render_gitem gitems trailing.

(* O2: a validate(..) group accepted with standard validators contains standard items only,
   and the validator list is their position-wise image *)
Theorem validate_group_written_order (ft : features) (fam : family) (gitems : list gitem) (trailing : bool)
        (vs : list validator) :
  parse_validation ft fam (render_validate_group gitems trailing) = Accept (RVStandard vs) ->
  exists ws, gitems = map GStd ws /\ vs = map (sem_vitem fam) ws.
Proof.
  intros H. apply parse_validation_std_inv in H. destruct H as (attrs & Ha & -> & Hall).
  unfold render_validate_group in Ha.
  rewrite (parse_terminated_render_items _ render_gitem_no_comma render_gitem_not_nil) in Ha.
  apply (vmap_map_image render_gitem _ (sem_gitem fam)) in Ha; [|intros w y; apply parse_gitem_accept].
  subst attrs. apply all_std_image. exact Hall.
Qed.

(* the same, for a group written with standard items only *)
Corollary validate_group_written_order_std (ft : features) (fam : family) (ws : list vitem) (trailing : bool)
          (vs : list validator) :
  parse_validation ft fam (render_validate_group (map GStd ws) trailing) = Accept (RVStandard vs) ->
  vs = map (sem_vitem fam) ws.
Proof.
  intros H. apply validate_group_written_order in H. destruct H as (ws' & E & ->).
  assert (ws' = ws); [|subst; reflexivity].
  revert ws' E. induction ws as [|w ws IH]; intros [|w' ws'] E; try discriminate; [reflexivity|].
  cbn [map] in E. injection E as -> E. f_equal. apply IH, E.
Qed.

Corollary validate_group_positions (ft : features) (fam : family) (ws : list vitem) (trailing : bool)
          (vs : list validator) :
  parse_validation ft fam (render_validate_group (map GStd ws) trailing) = Accept (RVStandard vs) ->
  List.length vs = List.length ws /\
  map vkind_of vs = map kind_vitem ws /\
  forall i w, nth_error ws i = Some w -> nth_error vs i = Some (sem_vitem fam w).
Proof.
  intros H. apply validate_group_written_order_std in H. subst vs. repeat split.
  - apply map_length.
  - rewrite map_map. apply map_ext. intros w. apply vkind_sem_vitem.
  - intros i w Hi. apply map_nth_error. exact Hi.
Qed.

(* the custom pair: accepted iff written as exactly one `with` and one `error`, in either
   order, and nothing else; the function and the error type are the written ones *)
Theorem validate_group_custom (ft : features) (fam : family) (gitems : list gitem) (trailing : bool)
        (f : fnref) (p : string) :
  parse_validation ft fam (render_validate_group gitems trailing) = Accept (RVCustom f p) ->
  gitems = [GWith f; GError p] \/ gitems = [GError p; GWith f].
Proof.
  unfold parse_validation, render_validate_group. intros H.
  apply vbind_accept in H. destruct H as (attrs & Ha & H).
  rewrite (parse_terminated_render_items _ render_gitem_no_comma render_gitem_not_nil) in Ha.
  apply (vmap_map_image render_gitem _ (sem_gitem fam)) in Ha; [|intros w y; apply parse_gitem_accept].
  subst attrs.
  apply vbind_accept in H. destruct H as ([[vs' w] e] & Hc & H).
  destruct vs' as [|v r]; [|destruct w, e; discriminate].
  destruct w as [f'|]; [|destruct e; discriminate]. destruct e as [p'|]; [|discriminate].
  injection H as <- <-.
  (* at most one with and one error may be collected, and no standard item *)
  pose proof (collect_vattrs_keeps _ _ _ _ _ _ _ Hc) as Hk. cbn [rev app] in Hk.
  destruct gitems as [|g1 gs]; [discriminate Hc|].
  destruct g1 as [w1|f1|p1]; [discriminate Hk|..]; cbn [map sem_gitem collect_vattrs] in Hc.
  - destruct gs as [|g2 gs]; [discriminate Hc|].
    destruct g2 as [w2|f2|p2]; [discriminate Hk|discriminate Hc|]. cbn [map sem_gitem collect_vattrs] in Hc.
    destruct gs as [|g3 gs]; [injection Hc as <- <-; auto|].
    destruct g3; [discriminate Hk|discriminate Hc|discriminate Hc].
  - destruct gs as [|g2 gs]; [discriminate Hc|].
    destruct g2 as [w2|f2|p2]; [discriminate Hk| |discriminate Hc]. cbn [map sem_gitem collect_vattrs] in Hc.
    destruct gs as [|g3 gs]; [injection Hc as <- <-; auto|].
    destruct g3; [discriminate Hk|discriminate Hc|discriminate Hc].
Qed.

(* ---- what a written bound denotes ------------------------------------------------------- *)

(* whichever way the macro stores the bound (literal value or spliced expression), the value
   compared against at run time is the one the WRITTEN expression denotes *)
Lemma wbound_denotes_int (d : decl) (tn : string) (t : int_ty) (e : expr) (v : Z) :
  d_family d = FInt tn t -> eval_int tn t (d_env d) e = Some v ->
  bval d (wbound (d_family d) e) = v.
Proof.
  intros Hf He. rewrite Hf. unfold wbound. cbn [parse_bound].
  destruct (parse_bound_int t e) as [b|c] eqn:Hp.
  - eapply enforced_bound_is_denoted; eauto.
  - unfold bval. rewrite Hf, He. reflexivity.
Qed.

Lemma wbound_denotes_len (d : decl) (e : expr) (v : Z) :
  d_family d = FStr -> eval_int "usize" usize_ty (d_env d) e = Some v ->
  bval d (wbound (d_family d) e) = v.
Proof.
  intros Hf He. rewrite Hf. unfold wbound. cbn [parse_bound].
  destruct (parse_bound_int usize_ty e) as [b|c] eqn:Hp.
  - pose proof (parse_bound_int_faithful "usize" usize_ty (d_env d) e b v Hp He) as H.
    unfold bval. destruct b as [x|e']; [exact H|]. subst e'. rewrite Hf, He. reflexivity.
  - unfold bval. rewrite Hf, He. reflexivity.
Qed.

Lemma wbound_denotes_float (d : decl) (is64 : bool) (e : expr) (v : Z) :
  d_family d = FFloat is64 -> eval_float is64 (d_env d) e = Some v ->
  bval d (wbound (d_family d) e) = v.
Proof.
  intros Hf He. rewrite Hf. unfold wbound. cbn [parse_bound].
  assert (Hexpr : bval d (BExpr e) = v) by (unfold bval; rewrite Hf, He; reflexivity).
  unfold parse_bound_float.
  destruct (leading_lit e) as [[[n l] whole]|] eqn:Hl; [|exact Hexpr].
  destruct (float_from_str is64 n l) as [z|] eqn:Hs; [|exact Hexpr].
  destruct whole; [|exact Hexpr].
  destruct (fb_is_finite is64 z); [|exact Hexpr].
  cbn [bval]. apply leading_lit_whole in Hl. unfold float_from_str in Hs.
  destruct (l_suffix l); [discriminate|]. destruct (l_radix l); [discriminate|]. injection Hs as <-.
  destruct Hl as [[-> ->]|[-> ->]]; cbn [eval_float obind] in He.
  - destruct (l_float l); [|discriminate]. injection He as <-. reflexivity.
  - destruct (l_float l); [|discriminate]. cbn [obind] in He. injection He as <-. reflexivity.
Qed.

(* ======================================================================================= *)
(* O3: the rest of the front end never rewrites the lists                                   *)
(* ======================================================================================= *)

Theorem front_end_keeps_lists (ft : features) (sd : sdecl) (d : decl) :
  macro_verdict ft sd = Accept d ->
  exists p, parse_meta (sd_item sd) = Accept (d_family d) /\
            parse_attrs ft (d_family d) (sd_attr sd) = Accept p /\
            d_sans d = p_sans p /\ d_validation d = p_validation p.
Proof.
  intros H. destruct (macro_verdict_inv _ _ _ H) as (fam & p & ts & Hm & Hp & _ & _ & _ & Hf & Hs & Hv & _).
  subst fam. exists p. auto.
Qed.

Lemma full_verdict_macro (ft : features) (sd : sdecl) (d : decl) :
  full_verdict ft sd = Accept d -> macro_verdict ft sd = Accept d.
Proof.
  unfold full_verdict. intros H.
  apply vbind_accept in H. destruct H as (d' & Hd & H).
  apply vbind_accept in H. destruct H as (p & _ & H).
  apply vbind_accept in H. destruct H as (u & _ & H). injection H as <-. exact Hd.
Qed.

Corollary full_front_end_keeps_lists (ft : features) (sd : sdecl) (d : decl) :
  full_verdict ft sd = Accept d ->
  exists p, parse_meta (sd_item sd) = Accept (d_family d) /\
            parse_attrs ft (d_family d) (sd_attr sd) = Accept p /\
            d_sans d = p_sans p /\ d_validation d = p_validation p.
Proof. intros H. apply front_end_keeps_lists, full_verdict_macro, H. Qed.

(* ---- end to end: from the written attribute to the declaration --------------------------- *)

(* the attribute is written as top-level blocks [bs] (LayoutLemmas.render: any order, optional
   trailing comma); [sanitize_written bs items] says that its sanitize(..) block, if any, lists
   [items]; [validate_written bs ws] that its validate(..) block lists the standard items [ws] *)
Definition sanitize_written (bs : list wblock) (items : list sitem) : Prop :=
  (LayoutLemmas.sans_of bs = [] /\ items = []) \/
  exists t, LayoutLemmas.sans_of bs = [render_sanitize_group items t].

Definition validate_written (bs : list wblock) (ws : list vitem) : Prop :=
  exists t, vals_of bs = [render_validate_group (map GStd ws) t].

Theorem accepted_sanitizers_as_written (ft : features) (sd : sdecl) (d : decl)
        (bs : list wblock) (t : bool) (items : list sitem) :
  macro_verdict ft sd = Accept d -> sd_attr sd = render bs t -> sanitize_written bs items ->
  d_sans d = map sem_sitem items.
Proof.
  intros H Ha Hw. destruct (front_end_keeps_lists _ _ _ H) as (p & _ & Hp & -> & _).
  rewrite Ha in Hp. apply parse_attrs_accept_char in Hp. destruct Hp as (Hs & _).
  destruct Hw as [[E ->]|[t' E]]; rewrite E in Hs; [exact Hs|].
  eapply sanitize_group_written_order, Hs.
Qed.

Theorem accepted_validators_as_written (ft : features) (sd : sdecl) (d : decl)
        (bs : list wblock) (t : bool) (ws : list vitem) :
  macro_verdict ft sd = Accept d -> sd_attr sd = render bs t -> validate_written bs ws ->
  d_validation d = Some (RVStandard (map (sem_vitem (d_family d)) ws)).
Proof.
  intros H Ha [t' E]. destruct (front_end_keeps_lists _ _ _ H) as (p & _ & Hp & _ & ->).
  rewrite Ha in Hp. apply parse_attrs_accept_char in Hp. destruct Hp as (_ & Hv & _).
  rewrite E in Hv. destruct Hv as (v & Hv & ->). f_equal.
  destruct v as [vs|f e].
  - apply validate_group_written_order_std in Hv. subst vs. reflexivity.
  - apply validate_group_custom in Hv. destruct ws as [|w ws]; destruct Hv as [Hv|Hv]; discriminate Hv.
Qed.

Theorem accepted_no_validate_block (ft : features) (sd : sdecl) (d : decl) (bs : list wblock) (t : bool) :
  macro_verdict ft sd = Accept d -> sd_attr sd = render bs t -> vals_of bs = [] ->
  d_validation d = None.
Proof.
  intros H Ha E. destruct (front_end_keeps_lists _ _ _ H) as (p & _ & Hp & _ & ->).
  rewrite Ha in Hp. apply parse_attrs_accept_char in Hp. destruct Hp as (_ & Hv & _).
  rewrite E in Hv. exact Hv.
Qed.

(* the concrete layout #[nutype(sanitize(..), validate(..), derive(..))], blocks in ANY order *)
Corollary accepted_three_blocks_as_written (ft : features) (sd : sdecl) (d : decl)
          (bs : list wblock) (t ts tv : bool) (items : list sitem) (ws : list vitem) (derives : list tok) :
  macro_verdict ft sd = Accept d -> sd_attr sd = render bs t ->
  Permutation bs [WSanitize (render_sanitize_group items ts);
                  WValidate (render_validate_group (map GStd ws) tv);
                  WDerive derives] ->
  d_sans d = map sem_sitem items /\
  d_validation d = Some (RVStandard (map (sem_vitem (d_family d)) ws)).
Proof.
  intros H Ha HP. destruct (front_end_keeps_lists _ _ _ H) as (p & _ & Hp & -> & ->).
  rewrite Ha in Hp. apply (parse_order_irrelevant _ _ _ _ t false p HP) in Hp.
  apply parse_attrs_accept_char in Hp. cbn [LayoutLemmas.sans_of vals_of] in Hp.
  destruct Hp as (Hs & (v & Hv & ->) & _). split.
  - eapply sanitize_group_written_order, Hs.
  - f_equal. destruct v as [vs|f e].
    + apply validate_group_written_order_std in Hv. subst vs. reflexivity.
    + apply validate_group_custom in Hv. destruct ws as [|w ws']; destruct Hv as [Hv|Hv]; discriminate Hv.
Qed.

(* ======================================================================================= *)
(* O4: execution follows the written order                                                  *)
(* ======================================================================================= *)

Section Exec.
  Variable lib : fnlib.

  (* the written sanitizers applied one after the other, first written first *)
  Definition run_written_sanitizers (d : decl) (items : list sitem) (raw : value) : value :=
    fold_left (fun x w => sanitizer_fn lib d (sem_sitem w) x) items raw.

  (* the first written validator, in written order, that the value violates *)
  Fixpoint first_written_violated (d : decl) (ws : list vitem) (x : value) : option vkind :=
    match ws with
    | [] => None
    | w :: r => if holds lib d (sem_vitem (d_family d) w) x then first_written_violated d r x
                else Some (kind_vitem w)
    end.

  Lemma first_written_violated_spec (d : decl) (ws : list vitem) (x : value) :
    first_violated lib d (map (sem_vitem (d_family d)) ws) x = first_written_violated d ws x.
  Proof.
    induction ws as [|w ws IH]; cbn [map first_violated first_written_violated]; [reflexivity|].
    rewrite IH, vkind_sem_vitem. reflexivity.
  Qed.

  Lemma spec_sanitize_written (d : decl) (items : list sitem) (raw : value) :
    d_sans d = map sem_sitem items -> spec_sanitize lib d raw = run_written_sanitizers d items raw.
  Proof.
    intros E. unfold spec_sanitize, run_written_sanitizers. rewrite E. clear E. revert raw.
    induction items as [|w ws IH]; intros raw; cbn [map fold_left]; [reflexivity | apply IH].
  Qed.

  (* declaration level: the constructor of a declaration whose lists are the images of written
     items computes "fold the written sanitizers, then report the first written violation" *)
  Theorem try_new_written_order (d : decl) (items : list sitem) (ws : list vitem) (raw : value) :
    d_sans d = map sem_sitem items ->
    d_validation d = Some (RVStandard (map (sem_vitem (d_family d)) ws)) ->
    comparable d (run_written_sanitizers d items raw) = true ->
    d_try_new lib d raw =
    match first_written_violated d ws (run_written_sanitizers d items raw) with
    | None => Ok (run_written_sanitizers d items raw)
    | Some k => Err (EVariant k)
    end.
  Proof.
    intros Hs Hv Hc. rewrite <- (spec_sanitize_written d items raw Hs) in *.
    rewrite <- first_written_violated_spec.
    destruct (d_try_new lib d raw) as [v|e] eqn:Ht.
    - apply (try_new_ok_iff_spec lib d raw v Hc) in Ht. destruct Ht as [-> Hok].
      unfold spec_valid in Hok. rewrite Hv in Hok.
      assert (Hn : first_violated lib d (map (sem_vitem (d_family d)) ws) (spec_sanitize lib d raw) = None).
      { revert Hok. generalize (map (sem_vitem (d_family d)) ws). intros vs.
        induction vs as [|v vs IH]; cbn [forallb first_violated]; [reflexivity|].
        rewrite andb_true_iff. intros [-> H]. apply IH, H. }
      rewrite Hn. reflexivity.
    - destruct (try_new_err_first_violated lib d _ raw e Hv Hc Ht) as (k & -> & Hk).
      rewrite Hk. reflexivity.
  Qed.

  Theorem new_written_order (d : decl) (items : list sitem) (raw : value) :
    d_sans d = map sem_sitem items -> d_new lib d raw = run_written_sanitizers d items raw.
  Proof. intros Hs. rewrite new_is_sanitize. apply spec_sanitize_written, Hs. Qed.

  (* ---- end to end, from the tokens the user wrote ---------------------------------------- *)

  Section Accepted.
    Variables (ft : features) (sd : sdecl) (d : decl) (bs : list wblock) (t : bool)
              (items : list sitem) (ws : list vitem).
    Hypothesis Hacc : macro_verdict ft sd = Accept d.
    Hypothesis Hattr : sd_attr sd = render bs t.
    Hypothesis Hsan : sanitize_written bs items.

    (* O4, whole constructor *)
    Theorem accepted_try_new_written_order (raw : value) :
      validate_written bs ws ->
      comparable d (run_written_sanitizers d items raw) = true ->
      d_try_new lib d raw =
      match first_written_violated d ws (run_written_sanitizers d items raw) with
      | None => Ok (run_written_sanitizers d items raw)
      | Some k => Err (EVariant k)
      end.
    Proof.
      intros Hval Hc. apply try_new_written_order; [| |exact Hc].
      - eapply accepted_sanitizers_as_written; eassumption.
      - eapply accepted_validators_as_written; eassumption.
    Qed.

    (* O4a: the stored value *)
    Corollary accepted_stored_value (raw v : value) :
      validate_written bs ws ->
      comparable d (run_written_sanitizers d items raw) = true ->
      d_try_new lib d raw = Ok v -> v = run_written_sanitizers d items raw.
    Proof.
      intros Hval Hc. rewrite (accepted_try_new_written_order raw Hval Hc).
      destruct (first_written_violated d ws _); [discriminate|]. intros H. injection H as <-. reflexivity.
    Qed.

    (* O4b: the reported variant *)
    Corollary accepted_reported_error (raw : value) (e : verr) :
      validate_written bs ws ->
      comparable d (run_written_sanitizers d items raw) = true ->
      d_try_new lib d raw = Err e ->
      exists k, e = EVariant k /\
                first_written_violated d ws (run_written_sanitizers d items raw) = Some k.
    Proof.
      intros Hval Hc. rewrite (accepted_try_new_written_order raw Hval Hc).
      destruct (first_written_violated d ws _) as [k|]; [|discriminate].
      intros H. injection H as <-. eauto.
    Qed.

    (* O4c: without a validate block, `new` *)
    Corollary accepted_new_written_order (raw : value) :
      d_new lib d raw = run_written_sanitizers d items raw.
    Proof. apply new_written_order. eapply accepted_sanitizers_as_written; eassumption. Qed.

    Corollary accepted_construct_no_validation (raw : value) :
      vals_of bs = [] -> construct lib d raw = OOk (run_written_sanitizers d items raw).
    Proof.
      intros E. unfold construct, has_validation.
      rewrite (accepted_no_validate_block ft sd d bs t Hacc Hattr E). f_equal.
      apply accepted_new_written_order.
    Qed.
  End Accepted.

  (* what [first_written_violated] says, spelled out: the reported item is violated, every item
     written before it holds *)
  Lemma first_written_violated_sound (d : decl) (ws : list vitem) (x : value) (k : vkind) :
    first_written_violated d ws x = Some k ->
    exists pre w post, ws = pre ++ w :: post /\ kind_vitem w = k /\
                       holds lib d (sem_vitem (d_family d) w) x = false /\
                       Forall (fun w' => holds lib d (sem_vitem (d_family d) w') x = true) pre.
  Proof.
    induction ws as [|w ws IH]; cbn [first_written_violated]; [discriminate|].
    destruct (holds lib d (sem_vitem (d_family d) w) x) eqn:Hh.
    - intros H. destruct (IH H) as (pre & w' & post & -> & Hk & Hv & Hpre).
      exists (w :: pre), w', post. repeat split; auto.
    - intros H. injection H as <-. exists [], w, ws. repeat split; auto.
  Qed.
End Exec.


(* the same for the whole pipeline (macro + rustc on the expansion) *)
Corollary full_accepted_try_new_written_order (lib : fnlib) (ft : features) (sd : sdecl) (d : decl)
          (bs : list wblock) (t : bool) (items : list sitem) (ws : list vitem) (raw : value) :
  full_verdict ft sd = Accept d -> sd_attr sd = render bs t ->
  sanitize_written bs items -> validate_written bs ws ->
  comparable d (run_written_sanitizers lib d items raw) = true ->
  d_try_new lib d raw =
  match first_written_violated lib d ws (run_written_sanitizers lib d items raw) with
  | None => Ok (run_written_sanitizers lib d items raw)
  | Some k => Err (EVariant k)
  end.
Proof.
  intros H Ha Hs Hv Hc. apply full_verdict_macro in H.
  exact (accepted_try_new_written_order lib ft sd d bs t items ws H Ha Hs raw Hv Hc).
Qed.

(* ======================================================================================= *)
(* the hypotheses are satisfiable; the order is observable                                  *)
(* ======================================================================================= *)

Definition ex_f0 : fnref := {| fn_id := 0%N; fn_form := FPath |}.     (* Run.Lib: push '!' *)

Example sanitize_group_example :
  parse_terminated (parse_sanitizer FStr) (render_sanitize_group [WWith ex_f0; WTrim; WLowercase] true)
  = Accept [SWith ex_f0; STrim; SLowercase] /\
  render_sanitize_group [WWith ex_f0; WTrim; WLowercase] true
  = [TId "with"; TEq; TFn ex_f0; TComma; TId "trim"; TComma; TId "lowercase"; TComma].
Proof. vm_compute. auto. Qed.

Definition lit_int (z : Z) : lit :=
  {| l_float := false; l_suffix := None; l_radix := false; l_int := z; l_f32 := 0%Z; l_f64 := 0%Z |}.

Example validate_group_example :
  parse_validation ft_none FStr
    (render_validate_group (map GStd [WLenCharMax (ELit (lit_int 5)); WNotEmpty; WPredicate ex_f0]) false)
  = Accept (RVStandard [VLenCharMax (BLit 5); VNotEmpty; VPredicate ex_f0]).
Proof. vm_compute. reflexivity. Qed.

Definition ex_item : item :=
  {| it_kind := "tuple"; it_vis := "pub"; it_name := "T"; it_generics := []; it_attrs := [];
     it_fields := [{| f_vis := ""; f_ty := "String" |}] |}.

(* #[nutype(validate(<ws>), derive(Debug), sanitize(<items>,),)] pub struct T(String); *)
Definition ex_bs (items : list sitem) (ws : list vitem) : list wblock :=
  [WValidate (render_validate_group (map GStd ws) false); WDerive [TId "Debug"];
   WSanitize (render_sanitize_group items true)].
Definition ex_sd (items : list sitem) (ws : list vitem) : sdecl :=
  {| sd_item := ex_item; sd_attr := render (ex_bs items ws) true; sd_env := [] |}.

Definition ex_run (items : list sitem) (ws : list vitem) (raw : value) :=
  match full_verdict ft_none (ex_sd items ws) with
  | Accept d => Some (d_sans d, standard_validators d, d_try_new (the_lib d) d raw)
  | Reject _ => None
  end.

Definition ex_ws : list vitem := [WNotEmpty; WLenCharMin (ELit (lit_int 3))].

(* " AB " : push '!', trim, lowercase = "ab !"   vs   trim, push '!', lowercase = "ab!" *)
Example written_sanitizer_order_observable :
  ex_run [WWith ex_f0; WTrim; WLowercase] ex_ws (VS [32; 65; 66; 32]%N)
  = Some ([SWith ex_f0; STrim; SLowercase], [VNotEmpty; VLenCharMin (BLit 3)], Ok (VS [97; 98; 32; 33]%N)) /\
  ex_run [WTrim; WWith ex_f0; WLowercase] ex_ws (VS [32; 65; 66; 32]%N)
  = Some ([STrim; SWith ex_f0; SLowercase], [VNotEmpty; VLenCharMin (BLit 3)], Ok (VS [97; 98; 33]%N)).
Proof. vm_compute. auto. Qed.

(* "" violates both validators: the one written first is reported *)
Example written_validator_order_observable :
  ex_run [WTrim] ex_ws (VS [32]%N)
  = Some ([STrim], [VNotEmpty; VLenCharMin (BLit 3)], Err (EVariant KNotEmpty)) /\
  ex_run [WTrim] (rev ex_ws) (VS [32]%N)
  = Some ([STrim], [VLenCharMin (BLit 3); VNotEmpty], Err (EVariant KLenCharMin)).
Proof. vm_compute. auto. Qed.

(* every hypothesis of the end-to-end theorem holds for this declaration *)
Example end_to_end_instance :
  exists d,
    full_verdict ft_none (ex_sd [WWith ex_f0; WTrim; WLowercase] ex_ws) = Accept d /\
    sanitize_written (ex_bs [WWith ex_f0; WTrim; WLowercase] ex_ws) [WWith ex_f0; WTrim; WLowercase] /\
    validate_written (ex_bs [WWith ex_f0; WTrim; WLowercase] ex_ws) ex_ws /\
    forall lib raw,
      d_try_new lib d raw =
      match first_written_violated lib d ex_ws
              (run_written_sanitizers lib d [WWith ex_f0; WTrim; WLowercase] raw) with
      | None => Ok (run_written_sanitizers lib d [WWith ex_f0; WTrim; WLowercase] raw)
      | Some k => Err (EVariant k)
      end.
Proof.
  destruct (full_verdict ft_none (ex_sd [WWith ex_f0; WTrim; WLowercase] ex_ws)) as [d|c] eqn:E;
    [|vm_compute in E; discriminate E].
  exists d.
  assert (Hs : sanitize_written (ex_bs [WWith ex_f0; WTrim; WLowercase] ex_ws) [WWith ex_f0; WTrim; WLowercase])
    by (right; exists true; reflexivity).
  assert (Hv : validate_written (ex_bs [WWith ex_f0; WTrim; WLowercase] ex_ws) ex_ws)
    by (exists false; reflexivity).
  repeat split; try assumption.
  intros lib raw.
  apply (full_accepted_try_new_written_order lib ft_none _ d _ true _ _ raw E eq_refl Hs Hv).
  assert (Hf : d_family d = FStr) by (vm_compute in E; injection E as <-; reflexivity).
  unfold comparable. rewrite Hf. reflexivity.
Qed.
