(* C13: the newtype's comparison traits are the inner value's; consequences. *)
From NV Require Import Base.Util Base.FloatBits Base.Float Macro.Ast Sem.Value Sem.Order.
Local Open Scope Z_scope.

Lemma lex_cmp_eq_iff {X} (c : X -> X -> comparison) (a b : list X) :
  (forall x y, c x y = Eq <-> x = y) -> (lex_cmp c a b = Eq <-> a = b).
Proof.
  intros Hc. revert b. induction a as [|x a IH]; intros [|y b]; cbn [lex_cmp].
  - split; reflexivity.
  - split; discriminate.
  - split; discriminate.
  - destruct (c x y) eqn:E.
    + apply Hc in E. subst. rewrite IH. split; congruence.
    + split; [discriminate|]. intros H. injection H as -> ->.
      assert (c y y = Eq) by (apply Hc; reflexivity). congruence.
    + split; [discriminate|]. intros H. injection H as -> ->.
      assert (c y y = Eq) by (apply Hc; reflexivity). congruence.
Qed.

Lemma lex_cmp_antisym {X} (c : X -> X -> comparison) (a b : list X) :
  (forall x y, c y x = CompOpp (c x y)) -> lex_cmp c b a = CompOpp (lex_cmp c a b).
Proof.
  intros Hc. revert b. induction a as [|x a IH]; intros [|y b]; cbn; try reflexivity.
  rewrite Hc. destruct (c x y); cbn; [apply IH | reflexivity | reflexivity].
Qed.

(* == of the newtype is equality of the stored values (non-float families) *)
Theorem value_eq_iff (fam : family) (a b : value) :
  (forall is64, fam <> FFloat is64) -> typed fam a = true -> typed fam b = true ->
  (match a, b with VF _, _ | _, VF _ => False | VI _, VI _ | VS _, VS _ | VL _, VL _ => True | _, _ => False end) ->
  (value_eq fam a b = true <-> a = b).
Proof.
  intros Hf Ha Hb Hs. unfold value_eq, value_pcmp.
  destruct fam; try (exfalso; eapply Hf; reflexivity);
    destruct a, b; try contradiction; cbn in *; try discriminate.
  all: try (destruct (Z.compare z z0) eqn:E; [apply Z.compare_eq_iff in E; subst; split; congruence
            | split; [discriminate | intros H; injection H as ->; rewrite Z.compare_refl in E; discriminate]
            | split; [discriminate | intros H; injection H as ->; rewrite Z.compare_refl in E; discriminate]]).
  all: try (destruct (lex_cmp N.compare s s0) eqn:E;
            [apply lex_cmp_eq_iff in E; [subst; split; congruence | intros; apply N.compare_eq_iff]
            | split; [discriminate | intros H; injection H as ->;
                      assert (lex_cmp N.compare s0 s0 = Eq) by (apply lex_cmp_eq_iff; [intros; apply N.compare_eq_iff | reflexivity]); congruence]
            | split; [discriminate | intros H; injection H as ->;
                      assert (lex_cmp N.compare s0 s0 = Eq) by (apply lex_cmp_eq_iff; [intros; apply N.compare_eq_iff | reflexivity]); congruence]]).
  all: try (destruct (lex_cmp Z.compare l l0) eqn:E;
            [apply lex_cmp_eq_iff in E; [subst; split; congruence | intros; apply Z.compare_eq_iff]
            | split; [discriminate | intros H; injection H as ->;
                      assert (lex_cmp Z.compare l0 l0 = Eq) by (apply lex_cmp_eq_iff; [intros; apply Z.compare_eq_iff | reflexivity]); congruence]
            | split; [discriminate | intros H; injection H as ->;
                      assert (lex_cmp Z.compare l0 l0 = Eq) by (apply lex_cmp_eq_iff; [intros; apply Z.compare_eq_iff | reflexivity]); congruence]]).
Qed.

(* cmp is antisymmetric (non-float families) *)
Theorem value_cmp_antisym (fam : family) (a b : value) (c : comparison) :
  (forall is64, fam <> FFloat is64) ->
  value_pcmp fam a b = Some c -> value_pcmp fam b a = Some (CompOpp c).
Proof.
  intros Hf. unfold value_pcmp.
  destruct fam; try (exfalso; eapply Hf; reflexivity); destruct a, b; try discriminate;
    intros H; injection H as <-; f_equal;
    try apply Z.compare_antisym;
    try (apply lex_cmp_antisym; intros; apply N.compare_antisym);
    try (apply lex_cmp_antisym; intros; apply Z.compare_antisym).
Qed.

(* Hash: #[derive(Hash)] on a single-field tuple struct feeds exactly the field to the hasher,
   so for any hasher the newtype hashes like its inner value, hence like its borrowed form *)
Definition newtype_hash {H} (hash_inner : value -> H) (stored : value) : H := hash_inner stored.

Theorem hash_eq_borrowed {H} (hash_inner : value -> H) (stored : value) :
  newtype_hash hash_inner stored = hash_inner stored.
Proof. reflexivity. Qed.

(* ---- Ord of the non-float families is a lawful total order: the comparison always answers,
   it is reflexive, and it is transitive through Lt / Eq (what BTreeMap / sort rely on) ---- *)
Lemma lex_cmp_refl {X} (c : X -> X -> comparison) (a : list X) :
  (forall x, c x x = Eq) -> lex_cmp c a a = Eq.
Proof.
  intros Hc. induction a as [|x a IH]; cbn [lex_cmp]; [reflexivity|]. rewrite Hc. exact IH.
Qed.

Lemma lex_cmp_lt_trans {X} (c : X -> X -> comparison) :
  (forall x y, c x y = Eq -> x = y) ->
  (forall x y z, c x y = Lt -> c y z = Lt -> c x z = Lt) ->
  forall a b d : list X, lex_cmp c a b = Lt -> lex_cmp c b d = Lt -> lex_cmp c a d = Lt.
Proof.
  intros Heq Htr a. induction a as [|x a IH]; intros [|y b] [|z d]; cbn [lex_cmp];
    try discriminate; try reflexivity.
  destruct (c x y) eqn:Exy; try discriminate.
  - apply Heq in Exy. subst y. destruct (c x z) eqn:Exz; try discriminate; [|reflexivity].
    apply IH.
  - destruct (c y z) eqn:Eyz; try discriminate.
    + apply Heq in Eyz. subst z. rewrite Exy. reflexivity.
    + rewrite (Htr _ _ _ Exy Eyz). reflexivity.
Qed.

Definition same_shape (a b : value) : Prop :=
  match a, b with VI _, VI _ | VS _, VS _ | VL _, VL _ => True | _, _ => False end.

(* partial_cmp never answers None on two values of one non-float shape: Ord::cmp cannot panic *)
Theorem value_pcmp_total (fam : family) (a b : value) :
  (forall is64, fam <> FFloat is64) -> same_shape a b ->
  exists c, value_pcmp fam a b = Some c /\ value_cmp fam a b = CmpOk c.
Proof.
  intros Hf Hs. unfold value_cmp, value_pcmp.
  destruct fam; try (exfalso; eapply Hf; reflexivity);
    destruct a, b; cbn in Hs; try contradiction; eexists; split; reflexivity.
Qed.

Theorem value_pcmp_refl (fam : family) (a : value) :
  (forall is64, fam <> FFloat is64) -> same_shape a a ->
  value_pcmp fam a a = Some Eq.
Proof.
  intros Hf Hs. unfold value_pcmp.
  destruct fam; try (exfalso; eapply Hf; reflexivity);
    destruct a; cbn in Hs; try contradiction; f_equal;
    try apply Z.compare_refl;
    try (apply lex_cmp_refl; intros; apply N.compare_refl);
    try (apply lex_cmp_refl; intros; apply Z.compare_refl).
Qed.

Theorem value_pcmp_lt_trans (fam : family) (a b d : value) :
  (forall is64, fam <> FFloat is64) ->
  value_pcmp fam a b = Some Lt -> value_pcmp fam b d = Some Lt -> value_pcmp fam a d = Some Lt.
Proof.
  intros Hf. unfold value_pcmp.
  destruct fam; try (exfalso; eapply Hf; reflexivity); destruct a, b; try discriminate;
    destruct d; try discriminate; intros H1 H2; injection H1 as H1; injection H2 as H2; f_equal.
  all: try (apply Z.compare_lt_iff; apply Z.compare_lt_iff in H1; apply Z.compare_lt_iff in H2;
            eapply Z.lt_trans; eassumption).
  all: try (eapply (lex_cmp_lt_trans N.compare); [ intros x y; apply N.compare_eq_iff
            | intros x y z Hx Hy; apply N.compare_lt_iff; apply N.compare_lt_iff in Hx;
              apply N.compare_lt_iff in Hy; eapply N.lt_trans; eassumption | eassumption | eassumption ]).
  all: try (eapply (lex_cmp_lt_trans Z.compare); [ intros x y; apply Z.compare_eq_iff
            | intros x y z Hx Hy; apply Z.compare_lt_iff; apply Z.compare_lt_iff in Hx;
              apply Z.compare_lt_iff in Hy; eapply Z.lt_trans; eassumption | eassumption | eassumption ]).
Qed.

(* PartialOrd agrees with PartialEq: partial_cmp answers Equal exactly when == holds *)
Theorem value_pcmp_eq_consistent (fam : family) (a b : value) :
  value_pcmp fam a b = Some Eq <-> value_eq fam a b = true.
Proof.
  unfold value_eq. destruct (value_pcmp fam a b) as [[| |]|]; split; congruence.
Qed.
