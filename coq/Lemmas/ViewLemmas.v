(* C13: the newtype's comparison traits are the inner value's; consequences. *)
From NV Require Import Base.Util Base.FloatBits Base.Float Macro.Ast Sem.Value Sem.Order.
Local Open Scope Z_scope.

Lemma lex_cmp_eq_iff {X} (c : X -> X -> comparison) (a b : list X) :
  (forall x y, c x y = Eq <-> x = y) -> (lex_cmp c a b = Eq <-> a = b).
Proof.
  intros Hc. revert b. induction a as [|x a IH]; intros [|y b]; cbn [lex_cmp].
  - split; reflexivity.
  - split; discriminate.
  - split; discriminate.
  - destruct (c x y) eqn:E.
    + apply Hc in E. subst. rewrite IH. split; congruence.
    + split; [discriminate|]. intros H. injection H as -> ->.
      assert (c y y = Eq) by (apply Hc; reflexivity). congruence.
    + split; [discriminate|]. intros H. injection H as -> ->.
      assert (c y y = Eq) by (apply Hc; reflexivity). congruence.
Qed.

Lemma lex_cmp_antisym {X} (c : X -> X -> comparison) (a b : list X) :
  (forall x y, c y x = CompOpp (c x y)) -> lex_cmp c b a = CompOpp (lex_cmp c a b).
Proof.
  intros Hc. revert b. induction a as [|x a IH]; intros [|y b]; cbn; try reflexivity.
  rewrite Hc. destruct (c x y); cbn; [apply IH | reflexivity | reflexivity].
Qed.

(* == of the newtype is equality of the stored values (non-float families) *)
Theorem value_eq_iff (fam : family) (a b : value) :
  (forall is64, fam <> FFloat is64) -> typed fam a = true -> typed fam b = true ->
  (match a, b with VF _, _ | _, VF _ => False | VI _, VI _ | VS _, VS _ | VL _, VL _ => True | _, _ => False end) ->
  (value_eq fam a b = true <-> a = b).
Proof.
  intros Hf Ha Hb Hs. unfold value_eq, value_pcmp.
  destruct fam; try (exfalso; eapply Hf; reflexivity);
    destruct a, b; try contradiction; cbn in *; try discriminate.
  all: try (destruct (Z.compare z z0) eqn:E; [apply Z.compare_eq_iff in E; subst; split; congruence
            | split; [discriminate | intros H; injection H as ->; rewrite Z.compare_refl in E; discriminate]
            | split; [discriminate | intros H; injection H as ->; rewrite Z.compare_refl in E; discriminate]]).
  all: try (destruct (lex_cmp N.compare s s0) eqn:E;
            [apply lex_cmp_eq_iff in E; [subst; split; congruence | intros; apply N.compare_eq_iff]
            | split; [discriminate | intros H; injection H as ->;
                      assert (lex_cmp N.compare s0 s0 = Eq) by (apply lex_cmp_eq_iff; [intros; apply N.compare_eq_iff | reflexivity]); congruence]
            | split; [discriminate | intros H; injection H as ->;
                      assert (lex_cmp N.compare s0 s0 = Eq) by (apply lex_cmp_eq_iff; [intros; apply N.compare_eq_iff | reflexivity]); congruence]]).
  all: try (destruct (lex_cmp Z.compare l l0) eqn:E;
            [apply lex_cmp_eq_iff in E; [subst; split; congruence | intros; apply Z.compare_eq_iff]
            | split; [discriminate | intros H; injection H as ->;
                      assert (lex_cmp Z.compare l0 l0 = Eq) by (apply lex_cmp_eq_iff; [intros; apply Z.compare_eq_iff | reflexivity]); congruence]
            | split; [discriminate | intros H; injection H as ->;
                      assert (lex_cmp Z.compare l0 l0 = Eq) by (apply lex_cmp_eq_iff; [intros; apply Z.compare_eq_iff | reflexivity]); congruence]]).
Qed.

(* cmp is antisymmetric (non-float families) *)
Theorem value_cmp_antisym (fam : family) (a b : value) (c : comparison) :
  (forall is64, fam <> FFloat is64) ->
  value_pcmp fam a b = Some c -> value_pcmp fam b a = Some (CompOpp c).
Proof.
  intros Hf. unfold value_pcmp.
  destruct fam; try (exfalso; eapply Hf; reflexivity); destruct a, b; try discriminate;
    intros H; injection H as <-; f_equal;
    try apply Z.compare_antisym;
    try (apply lex_cmp_antisym; intros; apply N.compare_antisym);
    try (apply lex_cmp_antisym; intros; apply Z.compare_antisym).
Qed.

(* Hash: #[derive(Hash)] on a single-field tuple struct feeds exactly the field to the hasher,
   so for any hasher the newtype hashes like its inner value, hence like its borrowed form *)
Definition newtype_hash {H} (hash_inner : value -> H) (stored : value) : H := hash_inner stored.

Theorem hash_eq_borrowed {H} (hash_inner : value -> H) (stored : value) :
  newtype_hash hash_inner stored = hash_inner stored.
Proof. reflexivity. Qed.
