(* Conversions and FromStr / Deserialize glue agree with the canonical constructor. *)
From NV Require Import Base.Util Base.Expr Macro.Surface Macro.Ast Sem.Guard Sem.Value Sem.Eval
     Sem.Conv Spec.GuardSpec Lemmas.GuardLemmas Lemmas.DeclLemmas.

Section Decl.
  Variable lib : fnlib.

  Lemma try_from_is_constructor (d : decl) (raw : value) :
    has_trait TrTryFrom (d_traits d) = true -> op_try_from lib d raw = construct lib d raw.
  Proof. unfold op_try_from. intros ->. reflexivity. Qed.

  Lemma from_is_new (d : decl) (raw : value) :
    has_trait TrFrom (d_traits d) = true -> op_from lib d raw = OOk (d_new lib d raw).
  Proof. unfold op_from. intros ->. reflexivity. Qed.

  Lemma from_is_constructor (d : decl) (raw : value) :
    has_trait TrFrom (d_traits d) = true -> has_validation d = false ->
    op_from lib d raw = construct lib d raw.
  Proof. unfold op_from, construct. intros -> ->. reflexivity. Qed.

  Lemma from_str_string_is_constructor (d : decl) (s : list N) :
    d_family d = FStr -> has_trait TrFromStr (d_traits d) = true ->
    op_from_str_string lib d s = construct lib d (VS s).
  Proof. unfold op_from_str_string. intros -> ->. reflexivity. Qed.

  Lemma default_is_constructor (d : decl) (v : value) :
    has_trait TrDefault (d_traits d) = true -> default_value d = Some v ->
    match construct lib d v with
    | OOk x => op_default lib d = OOk x
    | OErr _ => op_default lib d = OPanic
    | _ => False
    end.
  Proof.
    unfold op_default, construct. intros -> ->.
    destruct (has_validation d); [destruct (d_try_new lib d v)|]; reflexivity.
  Qed.

  (* a Default value, when one is returned, is a value the constructor returns *)
  Lemma default_never_invalid (d : decl) (x : value) :
    op_default lib d = OOk x -> exists v, default_value d = Some v /\ construct lib d v = OOk x.
  Proof.
    unfold op_default, construct.
    destruct (has_trait TrDefault (d_traits d)); [|discriminate].
    destruct (default_value d) as [v|]; [|discriminate].
    destruct (has_validation d).
    - destruct (d_try_new lib d v) eqn:E; [|discriminate]. intros H. exists v. split; [reflexivity|]. rewrite E. exact H.
    - intros H. exists v. split; [reflexivity | exact H].
  Qed.

  (* C06 *)
  Lemma from_str_parse_err_iff (d : decl) (inner : option value) :
    d_family d <> FStr -> has_trait TrFromStr (d_traits d) = true ->
    (op_from_str lib d inner = OParseErr <-> inner = None).
  Proof.
    unfold op_from_str. intros Hf ->. destruct (d_family d); try contradiction;
      (destruct inner as [x|]; [|split; reflexivity]);
      (split; [|discriminate]);
      unfold construct; destruct (has_validation d); [destruct (d_try_new lib d x)| | destruct (d_try_new lib d x)| | destruct (d_try_new lib d x)|]; discriminate.
  Qed.

  Lemma from_str_is_constructor (d : decl) (x : value) :
    d_family d <> FStr -> has_trait TrFromStr (d_traits d) = true ->
    op_from_str lib d (Some x) = construct lib d x.
  Proof. unfold op_from_str. intros Hf ->. destruct (d_family d); try contradiction; reflexivity. Qed.

  (* C04 / glue *)
  Lemma deserialize_sound (d : decl) (inner : option value) (v : value) :
    op_deserialize lib d inner = OOk v -> exists raw, inner = Some raw /\ construct lib d raw = OOk v.
  Proof.
    unfold op_deserialize. destruct (has_trait TrDeserialize (d_traits d)); [|discriminate].
    destruct inner as [raw|]; [|discriminate]. intros H. eauto.
  Qed.

  Lemma deserialize_complete (d : decl) (raw : value) :
    has_trait TrDeserialize (d_traits d) = true ->
    op_deserialize lib d (Some raw) = construct lib d raw.
  Proof. unfold op_deserialize. intros ->. reflexivity. Qed.

  (* the canonical constructor never yields a value the specification rejects *)
  Lemma construct_ok_valid (d : decl) (raw v : value) :
    comparable d (spec_sanitize lib d raw) = true ->
    construct lib d raw = OOk v ->
    v = spec_sanitize lib d raw /\ spec_valid lib d v = true.
  Proof.
    intros Hc. unfold construct. destruct (has_validation d) eqn:Hv.
    - destruct (d_try_new lib d raw) eqn:E; [|discriminate]. intros H. injection H as <-.
      apply (try_new_ok_iff_spec lib d raw a Hc) in E. destruct E as [-> Hs]. split; [reflexivity|exact Hs].
    - intros H. injection H as <-. rewrite new_is_sanitize. split; [reflexivity|].
      unfold spec_valid. unfold has_validation in Hv. destruct (d_validation d); [discriminate|reflexivity].
  Qed.
End Decl.
