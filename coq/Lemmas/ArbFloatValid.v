(* Positive validity theorems about the derived Arbitrary of float newtypes (Sem/ArbFloat.v):
   for every byte string and both widths the inner value handed to try_new satisfies the
   validators of the declaration, for the shapes
     T1  finite only,
     T2  one inclusive lower bound / T2' one inclusive upper bound,
     T3  two inclusive bounds whose range does not overflow,
   and the lifted statements on [arb_float] (never OPanic, always OOk). *)
From Coq Require Import ZArith Lia List Bool Reals Lra.
From NV Require Import Base.Util Base.IntTy Base.FloatBits Base.Float Base.Expr
     Macro.Surface Macro.Ast Sem.Guard Sem.Value Sem.Eval Sem.Bytes Sem.ArbFloat
     Lemmas.GuardLemmas Lemmas.FloatOrder Lemmas.ArbFloatLemmas.
From Flocq Require Import Core IEEE754.BinarySingleNaN IEEE754.Binary IEEE754.Bits.
Local Open Scope Z_scope.

(* ====================================================================================== *)
(* 0. Lifting an inner-value fact to [arb_float]                                          *)
(* ====================================================================================== *)

Section Lift.
  Variable lib : fnlib.

  (* no sanitizers, standard validators: the generator's outcome is OOk of the inner value as
     soon as every emitted check passes on it *)
  Lemma arb_float_ok_of_checks (d : decl) (is64 : bool) (vs : list validator) (bs : bytes) (x : Z) :
    d_family d = FFloat is64 -> d_sans d = [] -> d_validation d = Some (RVStandard vs) ->
    arb_float_inner is64 d vs bs = Some x ->
    (forall v, In v vs -> check_of lib d v (VF x) = None) ->
    arb_float lib d bs = OOk (VF x).
  Proof.
    intros Hf Hs Hv Hi Hc. unfold arb_float. rewrite Hf, Hv, Hi.
    unfold d_try_new, try_new, sans_of, checks_of. rewrite Hs, Hv. cbn [map sanitize fold_left].
    assert (Hn : validate (map (check_of lib d) vs) (VF x) = None).
    { apply validate_none_iff. rewrite Forall_map, Forall_forall. exact Hc. }
    rewrite Hn. reflexivity.
  Qed.
End Lift.

(* ====================================================================================== *)
(* 1. T1: finite only                                                                     *)
(* ====================================================================================== *)

Lemma base_kind_of_finite (vs : list validator) : In VFinite vs -> base_kind_of vs = BKFinite.
Proof.
  intros Hin. unfold base_kind_of.
  assert (H : existsb (fun v => vkind_eqb (vkind_of v) KFinite) vs = true).
  { apply existsb_exists. exists VFinite. split; [exact Hin | reflexivity]. }
  rewrite H. reflexivity.
Qed.

Theorem arb_float_inner_finite (is64 : bool) (d : decl) (vs : list validator) (bs : bytes) :
  In VFinite vs -> fboundaries d vs None None = (None, None) ->
  exists x, arb_float_inner is64 d vs bs = Some x /\ f_is_finite is64 x = true.
Proof.
  intros Hin Hb. unfold arb_float_inner. rewrite Hb, (base_kind_of_finite vs Hin).
  destruct (base_value_model_fuel is64 BKFinite bs) as (x & r & H & Hc).
  rewrite H. exists x. split; [reflexivity | exact Hc].
Qed.

Theorem arb_float_finite_ok (lib : fnlib) (d : decl) (is64 : bool) (bs : bytes) :
  d_family d = FFloat is64 -> d_sans d = [] -> d_validation d = Some (RVStandard [VFinite]) ->
  exists x, arb_float lib d bs = OOk (VF x) /\ f_is_finite is64 x = true.
Proof.
  intros Hf Hs Hv.
  destruct (arb_float_inner_finite is64 d [VFinite] bs (or_introl eq_refl) eq_refl) as (x & Hi & Hx).
  exists x. split; [|exact Hx].
  apply (arb_float_ok_of_checks lib d is64 [VFinite] bs x Hf Hs Hv Hi).
  intros v [<-|[]]. unfold check_of. rewrite Hf, Hx. reflexivity.
Qed.

Corollary arb_float_finite_no_panic (lib : fnlib) (d : decl) (is64 : bool) (bs : bytes) :
  d_family d = FFloat is64 -> d_sans d = [] -> d_validation d = Some (RVStandard [VFinite]) ->
  arb_float lib d bs <> OPanic.
Proof.
  intros Hf Hs Hv. destruct (arb_float_finite_ok lib d is64 bs Hf Hs Hv) as (x & H & _).
  rewrite H. discriminate.
Qed.

(* ====================================================================================== *)
(* 2. Generic layer on Flocq's binary_float (any format)                                  *)
(* ====================================================================================== *)

Section BinGeneric.
  Variable prec emax : Z.
  Context (prec_gt_0_ : Prec_gt_0 prec).
  Context (prec_lt_emax_ : Prec_lt_emax prec emax).
  Notation bf := (Binary.binary_float prec emax).
  Notation fexp := (SpecFloat.fexp prec emax).
  Notation rnd := (round radix2 fexp (round_mode mode_NE)).
  Notation B2R := (Binary.B2R prec emax).
  Notation is_finite := (Binary.is_finite prec emax).
  Notation is_nan := (Binary.is_nan prec emax).
  Notation Bsign := (Binary.Bsign prec emax).
  Notation Bcompare := (Binary.Bcompare prec emax).
  Notation Bplus := (Binary.Bplus prec emax prec_gt_0_ prec_lt_emax_).
  Notation Bminus := (Binary.Bminus prec emax prec_gt_0_ prec_lt_emax_).
  Notation Bmult := (Binary.Bmult prec emax prec_gt_0_ prec_lt_emax_).
  Notation Bdiv := (Binary.Bdiv prec emax prec_gt_0_ prec_lt_emax_).
  Notation binorm := (Binary.binary_normalize prec emax prec_gt_0_ prec_lt_emax_).
  Notation Binf := (Binary.B754_infinity prec emax).
  Notation Bzero := (Binary.B754_zero prec emax).

  Local Instance fexp_ok : Valid_exp fexp := Binary.fexp_correct prec emax prec_gt_0_.
  Local Instance fexp_mono : Monotone_exp fexp := Binary.fexp_monotone prec emax.

  Definition Bge (x y : bf) : bool := match Bcompare x y with Some Gt | Some Eq => true | _ => false end.
  Definition Ble (x y : bf) : bool := match Bcompare x y with Some Lt | Some Eq => true | _ => false end.

  Lemma Bge_finite (x y : bf) : is_finite x = true -> is_finite y = true ->
    (Bge x y = true <-> (B2R y <= B2R x)%R).
  Proof.
    intros Fx Fy. unfold Bge. rewrite (Bcompare_correct prec emax x y Fx Fy).
    destruct (Rcompare_spec (B2R x) (B2R y)); split; intros; try discriminate; try reflexivity; lra.
  Qed.

  Lemma Ble_finite (x y : bf) : is_finite x = true -> is_finite y = true ->
    (Ble x y = true <-> (B2R x <= B2R y)%R).
  Proof.
    intros Fx Fy. unfold Ble. rewrite (Bcompare_correct prec emax x y Fx Fy).
    destruct (Rcompare_spec (B2R x) (B2R y)); split; intros; try discriminate; try reflexivity; lra.
  Qed.

  Lemma Bge_pinf (y : bf) : is_nan y = false -> Bge (Binf false) y = true.
  Proof. destruct y as [s|[|]|s pl H|[|] m e H]; cbn; intros; try reflexivity; discriminate. Qed.

  Lemma Ble_ninf (y : bf) : is_nan y = false -> Ble (Binf true) y = true.
  Proof. destruct y as [s|[|]|s pl H|[|] m e H]; cbn; intros; try reflexivity; discriminate. Qed.

  Lemma Ble_to_pinf (y : bf) : is_nan y = false -> Ble y (Binf false) = true.
  Proof. destruct y as [s|[|]|s pl H|[|] m e H]; cbn; intros; try reflexivity; discriminate. Qed.

  Lemma finite_not_nan_B (x : bf) : is_finite x = true -> is_nan x = false.
  Proof. destruct x; cbn; congruence. Qed.

  Lemma Bsign_true_nonpos (x : bf) : is_finite x = true -> Bsign x = true -> (B2R x <= 0)%R.
  Proof.
    destruct x as [s|s|s pl H|s m e H]; cbn; intros F S; try discriminate; try lra.
    subst s. cbn. apply Rlt_le. apply F2R_lt_0. cbn. lia.
  Qed.

  Lemma Bsign_false_nonneg (x : bf) : is_finite x = true -> Bsign x = false -> (0 <= B2R x)%R.
  Proof.
    destruct x as [s|s|s pl H|s m e H]; cbn; intros F S; try discriminate; try lra.
    subst s. cbn. apply Rlt_le. apply F2R_gt_0. cbn. lia.
  Qed.

  Lemma rnd_B2R (x : bf) : rnd (B2R x) = B2R x.
  Proof. apply round_generic; [auto with typeclass_instances|]. apply generic_format_B2R. Qed.

  Lemma rnd_le (a b : R) : (a <= b)%R -> (rnd a <= rnd b)%R.
  Proof. apply round_le; auto with typeclass_instances. Qed.

  Lemma rnd_0 : rnd 0 = 0%R.
  Proof. apply round_0. auto with typeclass_instances. Qed.

  Lemma rnd_1 : rnd 1 = 1%R.
  Proof. rewrite <- (Bone_correct prec emax prec_gt_0_ prec_lt_emax_). apply rnd_B2R. Qed.

  (* the two outcomes of a rounded addition of finite numbers *)
  Lemma Bplus_cases nan (x y : bf) : is_finite x = true -> is_finite y = true ->
    (is_finite (Bplus nan mode_NE x y) = true /\ B2R (Bplus nan mode_NE x y) = rnd (B2R x + B2R y))
    \/ (Bplus nan mode_NE x y = Binf (Bsign x) /\ Bsign x = Bsign y /\
        (bpow radix2 emax <= Rabs (rnd (B2R x + B2R y)))%R).
  Proof.
    intros Fx Fy. generalize (Bplus_correct prec emax prec_gt_0_ prec_lt_emax_ nan mode_NE x y Fx Fy).
    destruct (Rlt_bool_spec (Rabs (rnd (B2R x + B2R y))) (bpow radix2 emax)) as [Hlt|Hge].
    - intros (H1 & H2 & _). left. split; assumption.
    - intros (H1 & H2). right. split; [|split; assumption].
      revert H1. generalize (Bplus nan mode_NE x y). intros r. cbn.
      destruct r; cbn; intros H1; try discriminate. injection H1 as <-. reflexivity.
  Qed.
  (* adding a non-negative finite number never goes below the other operand; on overflow the
     sum is +inf *)
  Lemma Bplus_fin_ge nan (a y : bf) : is_finite a = true -> is_finite y = true -> (0 <= B2R a)%R ->
    Bge (Bplus nan mode_NE a y) y = true /\ Bge (Bplus nan mode_NE y a) y = true.
  Proof.
    intros Fa Fy Ha.
    assert (Hov : (bpow radix2 emax <= Rabs (rnd (B2R a + B2R y)))%R -> Bsign a = false).
    { intros Ho. destruct (Bsign a) eqn:E; [|reflexivity]. exfalso.
      pose proof (Bsign_true_nonpos a Fa E) as Hn. assert (B2R a = 0%R) as H0 by lra.
      rewrite H0, Rplus_0_l, rnd_B2R in Ho. pose proof (abs_B2R_lt_emax prec emax y). lra. }
    assert (Hm : (B2R y <= rnd (B2R a + B2R y))%R).
    { apply Rle_trans with (rnd (B2R y)); [rewrite rnd_B2R; lra | apply rnd_le; lra]. }
    split.
    - destruct (Bplus_cases nan a y Fa Fy) as [[Fr Hr]|(Hr & Hs & Ho)].
      + apply Bge_finite; [assumption..|]. rewrite Hr. exact Hm.
      + rewrite Hr, (Hov Ho). apply Bge_pinf, finite_not_nan_B, Fy.
    - destruct (Bplus_cases nan y a Fy Fa) as [[Fr Hr]|(Hr & Hs & Ho)].
      + apply Bge_finite; [assumption..|]. rewrite Hr, Rplus_comm. exact Hm.
      + rewrite Hr, Hs. rewrite Rplus_comm in Ho. rewrite (Hov Ho). apply Bge_pinf, finite_not_nan_B, Fy.
  Qed.

  Lemma Bplus_fin_le nan (a y : bf) : is_finite a = true -> is_finite y = true -> (B2R a <= 0)%R ->
    Ble (Bplus nan mode_NE a y) y = true /\ Ble (Bplus nan mode_NE y a) y = true.
  Proof.
    intros Fa Fy Ha.
    assert (Hov : (bpow radix2 emax <= Rabs (rnd (B2R a + B2R y)))%R -> Bsign a = true).
    { intros Ho. destruct (Bsign a) eqn:E; [reflexivity|]. exfalso.
      pose proof (Bsign_false_nonneg a Fa E) as Hn. assert (B2R a = 0%R) as H0 by lra.
      rewrite H0, Rplus_0_l, rnd_B2R in Ho. pose proof (abs_B2R_lt_emax prec emax y). lra. }
    assert (Hm : (rnd (B2R a + B2R y) <= B2R y)%R).
    { apply Rle_trans with (rnd (B2R y)); [apply rnd_le; lra | rewrite rnd_B2R; lra]. }
    split.
    - destruct (Bplus_cases nan a y Fa Fy) as [[Fr Hr]|(Hr & Hs & Ho)].
      + apply Ble_finite; [assumption..|]. rewrite Hr. exact Hm.
      + rewrite Hr, (Hov Ho). apply Ble_ninf, finite_not_nan_B, Fy.
    - destruct (Bplus_cases nan y a Fy Fa) as [[Fr Hr]|(Hr & Hs & Ho)].
      + apply Ble_finite; [assumption..|]. rewrite Hr, Rplus_comm. exact Hm.
      + rewrite Hr, Hs. rewrite Rplus_comm in Ho. rewrite (Hov Ho). apply Ble_ninf, finite_not_nan_B, Fy.
  Qed.

  Lemma Bplus_inf_l nan s (y : bf) : is_finite y = true -> Bplus nan mode_NE (Binf s) y = Binf s.
  Proof. destruct y; cbn; try discriminate; reflexivity. Qed.

  Lemma Bplus_inf_r nan s (y : bf) : is_finite y = true -> Bplus nan mode_NE y (Binf s) = Binf s.
  Proof. destruct y; cbn; try discriminate; reflexivity. Qed.

  Lemma Bge_zero_cases (a : bf) : is_nan a = false -> Bge a (Bzero false) = true ->
    (is_finite a = true /\ (0 <= B2R a)%R) \/ a = Binf false.
  Proof.
    intros Hn Hg. destruct (is_finite a) eqn:Fa.
    - left. split; [reflexivity|]. apply (Bge_finite a (Bzero false) Fa eq_refl) in Hg. exact Hg.
    - right. destruct a as [s|[|]|s pl H|s m e H]; cbn in *; try discriminate. reflexivity.
  Qed.

  Lemma Ble_zero_cases (a : bf) : is_nan a = false -> Ble a (Bzero false) = true ->
    (is_finite a = true /\ (B2R a <= 0)%R) \/ a = Binf true.
  Proof.
    intros Hn Hg. destruct (is_finite a) eqn:Fa.
    - left. split; [reflexivity|]. apply (Ble_finite a (Bzero false) Fa eq_refl) in Hg. exact Hg.
    - right. destruct a as [s|[|]|s pl H|s m e H]; cbn in *; try discriminate. reflexivity.
  Qed.

  (* a + y >= y and y + a >= y for every non-NaN a >= 0 (infinity included) and finite y *)
  Lemma Bplus_ge_r nan (a y : bf) : is_finite y = true -> is_nan a = false -> Bge a (Bzero false) = true ->
    Bge (Bplus nan mode_NE a y) y = true.
  Proof.
    intros Fy Hn Hg. destruct (Bge_zero_cases a Hn Hg) as [[Fa Ha]| ->].
    - apply Bplus_fin_ge; assumption.
    - rewrite Bplus_inf_l by exact Fy. apply Bge_pinf, finite_not_nan_B, Fy.
  Qed.

  Lemma Bplus_ge_l nan (a y : bf) : is_finite y = true -> is_nan a = false -> Bge a (Bzero false) = true ->
    Bge (Bplus nan mode_NE y a) y = true.
  Proof.
    intros Fy Hn Hg. destruct (Bge_zero_cases a Hn Hg) as [[Fa Ha]| ->].
    - apply Bplus_fin_ge; assumption.
    - rewrite Bplus_inf_r by exact Fy. apply Bge_pinf, finite_not_nan_B, Fy.
  Qed.

  Lemma Bplus_le_r nan (a y : bf) : is_finite y = true -> is_nan a = false -> Ble a (Bzero false) = true ->
    Ble (Bplus nan mode_NE a y) y = true.
  Proof.
    intros Fy Hn Hg. destruct (Ble_zero_cases a Hn Hg) as [[Fa Ha]| ->].
    - apply Bplus_fin_le; assumption.
    - rewrite Bplus_inf_l by exact Fy. apply Ble_ninf, finite_not_nan_B, Fy.
  Qed.

  (* a factor in [0,1] times a non-negative finite number: finite and non-negative *)
  Lemma Bmult_unit nan (u r : bf) : is_finite u = true -> is_finite r = true ->
    (0 <= B2R u <= 1)%R -> (0 <= B2R r)%R ->
    is_finite (Bmult nan mode_NE u r) = true /\ (0 <= B2R (Bmult nan mode_NE u r))%R.
  Proof.
    intros Fu Fr Hu Hr. generalize (Bmult_correct prec emax prec_gt_0_ prec_lt_emax_ nan mode_NE u r).
    assert (H0 : (0 <= rnd (B2R u * B2R r))%R). { rewrite <- rnd_0. apply rnd_le. nra. }
    assert (H1 : (rnd (B2R u * B2R r) <= B2R r)%R).
    { apply Rle_trans with (rnd (B2R r)); [apply rnd_le; nra | rewrite rnd_B2R; lra]. }
    rewrite Rlt_bool_true.
    - intros (H2 & H3 & _). rewrite H3, Fu, Fr, H2. split; [reflexivity|exact H0].
    - rewrite Rabs_pos_eq by exact H0. pose proof (abs_B2R_lt_emax prec emax r) as H.
      rewrite Rabs_pos_eq in H by lra. lra.
  Qed.

  Lemma Bdiv_unit nan (x y : bf) : is_finite x = true -> (0 <= B2R x <= B2R y)%R -> (0 < B2R y)%R ->
    is_finite (Bdiv nan mode_NE x y) = true /\ (0 <= B2R (Bdiv nan mode_NE x y) <= 1)%R.
  Proof.
    intros Fx Hx Hy.
    generalize (Bdiv_correct prec emax prec_gt_0_ prec_lt_emax_ nan mode_NE x y ltac:(lra)).
    assert (Hq : (0 <= B2R x / B2R y <= 1)%R).
    { assert (Hi : (0 < / B2R y)%R) by (apply Rinv_0_lt_compat; lra).
      assert (H1 : (B2R y * / B2R y = 1)%R) by (apply Rinv_r; lra).
      unfold Rdiv. split; nra. }
    assert (H0 : (0 <= rnd (B2R x / B2R y))%R). { rewrite <- rnd_0. apply rnd_le. lra. }
    assert (H1 : (rnd (B2R x / B2R y) <= 1)%R). { rewrite <- rnd_1. apply rnd_le. lra. }
    rewrite Rlt_bool_true.
    - intros (H2 & H3 & _). rewrite H3, Fx, H2. split; [reflexivity|lra].
    - rewrite Rabs_pos_eq by exact H0. apply Rle_lt_trans with (1 := H1).
      change 1%R with (bpow radix2 0). apply bpow_lt.
      unfold Prec_gt_0, Prec_lt_emax in *. lia.
  Qed.

  (* `n as f` for 0 <= n <= 2^k below the overflow threshold *)
  Lemma binorm_nat (n k : Z) : 0 <= n <= 2 ^ k -> 0 <= k < emax ->
    is_finite (binorm mode_NE n 0 false) = true /\ B2R (binorm mode_NE n 0 false) = rnd (IZR n).
  Proof.
    intros Hn Hk.
    generalize (binary_normalize_correct prec emax prec_gt_0_ prec_lt_emax_ mode_NE n 0 false).
    assert (HF : F2R (Float radix2 n 0) = IZR n). { unfold F2R. cbn. lra. }
    rewrite HF.
    assert (Hb : (rnd (IZR n) <= bpow radix2 k)%R).
    { rewrite <- (round_generic radix2 fexp (round_mode mode_NE) (bpow radix2 k)).
      - apply rnd_le. rewrite <- IZR_Zpower by lia. apply IZR_le. exact (proj2 Hn).
      - apply generic_format_bpow. unfold SpecFloat.fexp, SpecFloat.emin, Prec_gt_0, Prec_lt_emax in *. lia. }
    assert (H0 : (0 <= rnd (IZR n))%R). { rewrite <- rnd_0. apply rnd_le. apply IZR_le. lia. }
    rewrite Rlt_bool_true.
    - intros (H1 & H2 & _). split; assumption.
    - rewrite Rabs_pos_eq by exact H0. apply Rle_lt_trans with (1 := Hb). apply bpow_lt. lia.
  Qed.
  (* (n as f) / (m as f) for 0 <= n <= m lies in [0,1] *)
  Lemma binorm_ratio nan (n m k : Z) : 0 <= n <= m -> 1 <= m <= 2 ^ k -> 0 <= k < emax ->
    is_finite (Bdiv nan mode_NE (binorm mode_NE n 0 false) (binorm mode_NE m 0 false)) = true /\
    (0 <= B2R (Bdiv nan mode_NE (binorm mode_NE n 0 false) (binorm mode_NE m 0 false)) <= 1)%R.
  Proof.
    intros Hn Hm Hk.
    destruct (binorm_nat n k ltac:(lia) Hk) as [Fn Rn]. destruct (binorm_nat m k ltac:(lia) Hk) as [Fm Rm].
    apply Bdiv_unit; [exact Fn | |]; rewrite ?Rn, Rm.
    - split; [rewrite <- rnd_0 | ]; apply rnd_le, IZR_le; lia.
    - apply Rlt_le_trans with (rnd 1); [rewrite rnd_1; lra | apply rnd_le, IZR_le; lia].
  Qed.

  Lemma Bge_zero_of_sign (x : bf) : is_nan x = false -> Bsign x = false -> Bge x (Bzero false) = true.
  Proof. destruct x as [s|s|s pl H|s m e H]; cbn; intros Hn Hs; try discriminate; subst s; reflexivity. Qed.

  Lemma Ble_zero_of_sign (x : bf) : is_nan x = false -> Bsign x = true -> Ble x (Bzero false) = true.
  Proof. destruct x as [s|s|s pl H|s m e H]; cbn; intros Hn Hs; try discriminate; subst s; reflexivity. Qed.
End BinGeneric.

(* ====================================================================================== *)
(* 3. Sign-bit operations on bit patterns (any format, any integer: out-of-range patterns *)
(*    included, since [split_bits] is total)                                              *)
(* ====================================================================================== *)

Definition ff_with_sign (s : bool) (f : full_float) : full_float :=
  match f with
  | F754_zero _ => F754_zero s
  | F754_infinity _ => F754_infinity s
  | F754_nan _ pl => F754_nan s pl
  | F754_finite _ m e => F754_finite s m e
  end.

Lemma lxor_pow2_add (a n : Z) : 0 <= n -> 0 <= a < 2 ^ n -> Z.lxor a (2 ^ n) = a + 2 ^ n.
Proof.
  intros Hn Ha. symmetry. apply Z.add_nocarry_lxor. apply Z.bits_inj'. intros i Hi.
  rewrite Z.land_spec, Z.bits_0, Z.pow2_bits_eqb by lia.
  destruct (Z.eqb_spec n i) as [<-|]; [|apply andb_false_r].
  rewrite <- (Z.mod_small a (2 ^ n)) by lia. rewrite Z.mod_pow2_bits_high by lia. reflexivity.
Qed.

Section BitsGeneric.
  Variable mw ew : Z.
  Hypothesis Hmw : 0 < mw.
  Hypothesis Hew : 0 < ew.
  Hypothesis Hmax : mw + 1 < 2 ^ (ew - 1).
  Notation of_bits := (binary_float_of_bits mw ew Hmw Hew Hmax).

  Lemma split_bits_low (x : Z) :
    split_bits mw ew (x mod 2 ^ (mw + ew)) = (false, x mod 2 ^ mw, (x / 2 ^ mw) mod 2 ^ ew).
  Proof.
    clear Hmax. unfold split_bits. cbv zeta.
    assert (HM : 0 < 2 ^ mw) by (apply Z.pow_pos_nonneg; lia).
    assert (HE : 0 < 2 ^ ew) by (apply Z.pow_pos_nonneg; lia).
    rewrite Z.pow_add_r by lia. set (M := 2 ^ mw) in *. set (E := 2 ^ ew) in *.
    rewrite Z.rem_mul_r by lia.
    pose proof (Z.mod_pos_bound x M HM) as H1. pose proof (Z.mod_pos_bound (x / M) E HE) as H2.
    set (q := (x / M) mod E) in *. set (r := x mod M) in *.
    replace (r + M * q) with (r + q * M) by ring.
    rewrite Z.mod_add, Z.div_add by lia.
    rewrite (Z.mod_small r M), (Z.div_small r M), Z.add_0_l, (Z.mod_small q E) by lia.
    f_equal. f_equal. apply Z.leb_gt. nia.
  Qed.

  Lemma split_bits_high (x : Z) :
    split_bits mw ew (x mod 2 ^ (mw + ew) + 2 ^ (mw + ew)) = (true, x mod 2 ^ mw, (x / 2 ^ mw) mod 2 ^ ew).
  Proof.
    clear Hmax. unfold split_bits. cbv zeta.
    assert (HM : 0 < 2 ^ mw) by (apply Z.pow_pos_nonneg; lia).
    assert (HE : 0 < 2 ^ ew) by (apply Z.pow_pos_nonneg; lia).
    rewrite Z.pow_add_r by lia. set (M := 2 ^ mw) in *. set (E := 2 ^ ew) in *.
    rewrite Z.rem_mul_r by lia.
    pose proof (Z.mod_pos_bound x M HM) as H1. pose proof (Z.mod_pos_bound (x / M) E HE) as H2.
    set (q := (x / M) mod E) in *. set (r := x mod M) in *.
    replace (r + M * q + M * E) with (r + (q + E) * M) by ring.
    rewrite Z.mod_add, Z.div_add by lia.
    rewrite (Z.mod_small r M), (Z.div_small r M), Z.add_0_l by lia.
    replace (q + E) with (q + 1 * E) by ring. rewrite Z.mod_add, (Z.mod_small q E) by lia.
    f_equal. f_equal. apply Z.leb_le. nia.
  Qed.

  (* a pattern with the same exponent and fraction fields decodes to the same float up to sign *)
  Lemma aux_with_sign (x y : Z) (s : bool) :
    split_bits mw ew y = (s, x mod 2 ^ mw, (x / 2 ^ mw) mod 2 ^ ew) ->
    binary_float_of_bits_aux mw ew y = ff_with_sign s (binary_float_of_bits_aux mw ew x).
  Proof.
    intros Hy. unfold binary_float_of_bits_aux. rewrite Hy. unfold split_bits. cbv zeta.
    assert (HM : 0 < 2 ^ mw) by (apply Z.pow_pos_nonneg; lia).
    pose proof (Z.mod_pos_bound x (2 ^ mw) HM) as H1.
    set (mx := x mod 2 ^ mw) in *. set (ex := (x / 2 ^ mw) mod 2 ^ ew).
    destruct (Zeq_bool ex 0).
    - destruct mx; try reflexivity. lia.
    - destruct (Zeq_bool ex (2 ^ ew - 1)).
      + destruct mx; try reflexivity. lia.
      + destruct (mx + 2 ^ mw) eqn:E; try reflexivity; lia.
  Qed.

  Lemma of_bits_with_sign (x y : Z) (s : bool) :
    split_bits mw ew y = (s, x mod 2 ^ mw, (x / 2 ^ mw) mod 2 ^ ew) ->
    Binary.is_nan _ _ (of_bits y) = Binary.is_nan _ _ (of_bits x) /\
    Binary.is_finite _ _ (of_bits y) = Binary.is_finite _ _ (of_bits x) /\
    Binary.Bsign _ _ (of_bits y) = s.
  Proof.
    intros Hy. unfold binary_float_of_bits.
    rewrite !is_nan_FF2B, !is_finite_FF2B, Bsign_FF2B, (aux_with_sign x y s Hy).
    destruct (binary_float_of_bits_aux mw ew x); repeat split; reflexivity.
  Qed.
End BitsGeneric.

(* ====================================================================================== *)
(* 4. The two formats, on bit patterns                                                    *)
(* ====================================================================================== *)

(* the real number a finite pattern denotes *)
Definition f_real (is64 : bool) (x : Z) : R :=
  if is64 then Binary.B2R 53 1024 (b64_of_bits x) else Binary.B2R 24 128 (b32_of_bits x).

Lemma b64_of_bits_of_b64 (z : binary64) : b64_of_bits (bits_of_b64 z) = z.
Proof. exact (binary_float_of_bits_of_binary_float 52 11 eq_refl eq_refl eq_refl z). Qed.
Lemma b32_of_bits_of_b32 (z : binary32) : b32_of_bits (bits_of_b32 z) = z.
Proof. exact (binary_float_of_bits_of_binary_float 23 8 eq_refl eq_refl eq_refl z). Qed.

Lemma b64_of_bits_0 : b64_of_bits 0 = Binary.B754_zero 53 1024 false.
Proof. apply B2FF_inj. reflexivity. Qed.
Lemma b32_of_bits_0 : b32_of_bits 0 = Binary.B754_zero 24 128 false.
Proof. apply B2FF_inj. reflexivity. Qed.

Lemma f_ge_B (is64 : bool) (x y : Z) :
  f_ge is64 x y = if is64 then Bge 53 1024 (b64_of_bits x) (b64_of_bits y)
                  else Bge 24 128 (b32_of_bits x) (b32_of_bits y).
Proof. destruct is64; reflexivity. Qed.

Lemma f_le_B (is64 : bool) (x y : Z) :
  f_le is64 x y = if is64 then Ble 53 1024 (b64_of_bits x) (b64_of_bits y)
                  else Ble 24 128 (b32_of_bits x) (b32_of_bits y).
Proof. destruct is64; reflexivity. Qed.

Lemma f_ge_le_swap (is64 : bool) (x y : Z) : f_ge is64 x y = f_le is64 y x.
Proof.
  unfold f_ge, f_le. destruct (fcmp is64 x y) as [c|] eqn:E.
  - rewrite (fcmp_antisym is64 x y c E). destruct c; reflexivity.
  - assert (E' : fcmp is64 y x = None) by (apply fcmp_none_iff; apply fcmp_none_iff in E; tauto).
    rewrite E'. reflexivity.
Qed.

Lemma of_bits_with_sign64 (x y : Z) (s : bool) :
  split_bits 52 11 y = (s, x mod 2 ^ 52, (x / 2 ^ 52) mod 2 ^ 11) ->
  Binary.is_nan 53 1024 (b64_of_bits y) = Binary.is_nan 53 1024 (b64_of_bits x) /\
  Binary.is_finite 53 1024 (b64_of_bits y) = Binary.is_finite 53 1024 (b64_of_bits x) /\
  Binary.Bsign 53 1024 (b64_of_bits y) = s.
Proof. exact (of_bits_with_sign 52 11 eq_refl eq_refl eq_refl x y s). Qed.

Lemma of_bits_with_sign32 (x y : Z) (s : bool) :
  split_bits 23 8 y = (s, x mod 2 ^ 23, (x / 2 ^ 23) mod 2 ^ 8) ->
  Binary.is_nan 24 128 (b32_of_bits y) = Binary.is_nan 24 128 (b32_of_bits x) /\
  Binary.is_finite 24 128 (b32_of_bits y) = Binary.is_finite 24 128 (b32_of_bits x) /\
  Binary.Bsign 24 128 (b32_of_bits y) = s.
Proof. exact (of_bits_with_sign 23 8 eq_refl eq_refl eq_refl x y s). Qed.

(* |b| : same class, sign cleared *)
Lemma f_abs_spec (is64 : bool) (b : Z) :
  f_is_nan is64 (fb_abs is64 b) = f_is_nan is64 b /\
  f_is_finite is64 (fb_abs is64 b) = f_is_finite is64 b /\
  (f_is_nan is64 b = false -> f_ge is64 (fb_abs is64 b) 0 = true) /\
  (f_is_finite is64 b = true -> (0 <= f_real is64 (fb_abs is64 b))%R).
Proof.
  rewrite f_ge_B. unfold fb_abs, f_is_nan, f_is_finite, f_real. destruct is64; cbn [f_width].
  - change (2 ^ (64 - 1)) with (2 ^ (52 + 11)).
    destruct (of_bits_with_sign64 b _ false (split_bits_low 52 11 eq_refl eq_refl b))
      as (H1 & H2 & H3).
    rewrite H1, H2, b64_of_bits_0. repeat split.
    + intros Hn. apply Bge_zero_of_sign; [rewrite H1; exact Hn | exact H3].
    + intros Hf. apply Bsign_false_nonneg; [rewrite H2; exact Hf | exact H3].
  - change (2 ^ (32 - 1)) with (2 ^ (23 + 8)).
    destruct (of_bits_with_sign32 b _ false (split_bits_low 23 8 eq_refl eq_refl b))
      as (H1 & H2 & H3).
    rewrite H1, H2, b32_of_bits_0. repeat split.
    + intros Hn. apply Bge_zero_of_sign; [rewrite H1; exact Hn | exact H3].
    + intros Hf. apply Bsign_false_nonneg; [rewrite H2; exact Hf | exact H3].
Qed.

(* -|b| : same class, sign set *)
Lemma f_negabs_spec (is64 : bool) (b : Z) :
  f_is_nan is64 (fb_neg is64 (fb_abs is64 b)) = f_is_nan is64 b /\
  (f_is_nan is64 b = false -> f_le is64 (fb_neg is64 (fb_abs is64 b)) 0 = true).
Proof.
  rewrite f_le_B. unfold fb_neg, fb_abs, f_is_nan. destruct is64; cbn [f_width].
  - rewrite lxor_pow2_add by (try apply Z.mod_pos_bound; lia).
    change (2 ^ (64 - 1)) with (2 ^ (52 + 11)).
    destruct (of_bits_with_sign64 b _ true (split_bits_high 52 11 eq_refl eq_refl b))
      as (H1 & H2 & H3).
    rewrite H1, b64_of_bits_0. split; [reflexivity|].
    intros Hn. apply Ble_zero_of_sign; [rewrite H1; exact Hn | exact H3].
  - rewrite lxor_pow2_add by (try apply Z.mod_pos_bound; lia).
    change (2 ^ (32 - 1)) with (2 ^ (23 + 8)).
    destruct (of_bits_with_sign32 b _ true (split_bits_high 23 8 eq_refl eq_refl b))
      as (H1 & H2 & H3).
    rewrite H1, b32_of_bits_0. split; [reflexivity|].
    intros Hn. apply Ble_zero_of_sign; [rewrite H1; exact Hn | exact H3].
Qed.

(* ---- rounded addition against a finite operand ------------------------------------------ *)

(* a + L >= L for finite L and every non-NaN a >= 0: rounding to nearest is monotone and L is
   representable; an overflowing sum is +inf, still >= L; a = +inf gives +inf *)
Lemma f_add_ge_right (is64 : bool) (a L : Z) :
  f_is_finite is64 L = true -> f_is_nan is64 a = false -> f_ge is64 a 0 = true ->
  f_ge is64 (f_add is64 a L) L = true.
Proof.
  rewrite !f_ge_B. unfold f_is_finite, f_is_nan, f_add, f_binop. destruct is64.
  - rewrite b64_of_bits_of_b64, b64_of_bits_0. unfold b64_plus. intros. apply Bplus_ge_r; assumption.
  - rewrite b32_of_bits_of_b32, b32_of_bits_0. unfold b32_plus. intros. apply Bplus_ge_r; assumption.
Qed.

Lemma f_add_ge_left (is64 : bool) (a L : Z) :
  f_is_finite is64 L = true -> f_is_nan is64 a = false -> f_ge is64 a 0 = true ->
  f_ge is64 (f_add is64 L a) L = true.
Proof.
  rewrite !f_ge_B. unfold f_is_finite, f_is_nan, f_add, f_binop. destruct is64.
  - rewrite b64_of_bits_of_b64, b64_of_bits_0. unfold b64_plus. intros. apply Bplus_ge_l; assumption.
  - rewrite b32_of_bits_of_b32, b32_of_bits_0. unfold b32_plus. intros. apply Bplus_ge_l; assumption.
Qed.

Lemma f_add_le_right (is64 : bool) (a U : Z) :
  f_is_finite is64 U = true -> f_is_nan is64 a = false -> f_le is64 a 0 = true ->
  f_le is64 (f_add is64 a U) U = true.
Proof.
  rewrite !f_le_B. unfold f_is_finite, f_is_nan, f_add, f_binop. destruct is64.
  - rewrite b64_of_bits_of_b64, b64_of_bits_0. unfold b64_plus. intros. apply Bplus_le_r; assumption.
  - rewrite b32_of_bits_of_b32, b32_of_bits_0. unfold b32_plus. intros. apply Bplus_le_r; assumption.
Qed.

(* ====================================================================================== *)
(* 5. T2 / T2': one inclusive bound                                                       *)
(* ====================================================================================== *)

Definition is_fbound (v : validator) : bool :=
  match v with VGreater _ | VGreaterOrEqual _ | VLess _ | VLessOrEqual _ => true | _ => false end.

Lemma fboundaries_no_bound (d : decl) (vs : list validator) : forall lo hi,
  existsb is_fbound vs = false -> fboundaries d vs lo hi = (lo, hi).
Proof.
  induction vs as [|v vs IH]; intros lo hi H; [reflexivity|].
  cbn [existsb] in H. apply orb_false_iff in H. destruct H as [Hv Hr].
  destruct v; cbn [is_fbound] in Hv; try discriminate; cbn [fboundaries]; apply IH; exact Hr.
Qed.

(* as soon as a bound validator is present the conditioned base value is not a NaN *)
Lemma base_cond_not_nan (is64 : bool) (d : decl) (vs : list validator) (lo hi : option fbound) (b : Z) :
  fboundaries d vs None None = (lo, hi) -> lo <> None \/ hi <> None ->
  base_cond is64 (base_kind_of vs) b = true -> f_is_nan is64 b = false.
Proof.
  intros Hb Hne. unfold base_kind_of.
  destruct (existsb (fun v => vkind_eqb (vkind_of v) KFinite) vs).
  - cbn [base_cond]. apply finite_not_nan.
  - change (existsb _ vs) with (existsb is_fbound vs).
    destruct (existsb is_fbound vs) eqn:E.
    + cbn [base_cond]. intros H. apply negb_true_iff in H. exact H.
    + rewrite (fboundaries_no_bound d vs None None E) in Hb. injection Hb as <- <-. tauto.
Qed.

(* T2.  x = |b| + L with b not NaN.  No hypothesis on the presence of `finite` is needed for
   the bound itself: with or without it the base value is not a NaN.  (With `finite` the value
   may still be +inf by overflow -- the recorded class float_one_sided_finite_overflow -- which
   is why the lifted statements below are for the single bound validator only.)  L must be
   finite: for L = -inf and b = +inf the sum is NaN. *)
Theorem arb_float_inner_lower_incl (is64 : bool) (d : decl) (vs : list validator) (bs : bytes) (L : Z) :
  fboundaries d vs None None = (Some {| fb_val := L; fb_incl := true |}, None) ->
  f_is_finite is64 L = true ->
  exists x, arb_float_inner is64 d vs bs = Some x /\ f_ge is64 x L = true.
Proof.
  intros Hb HL. unfold arb_float_inner. rewrite Hb.
  destruct (base_value_model_fuel is64 (base_kind_of vs) bs) as (b & r & H & Hc).
  rewrite H. cbn [obind fst fb_val]. unfold adjust_lower. cbn [fb_incl fb_val].
  eexists. split; [reflexivity|].
  assert (Hn : f_is_nan is64 b = false).
  { eapply base_cond_not_nan; [exact Hb | left; discriminate | exact Hc]. }
  destruct (f_abs_spec is64 b) as (A1 & _ & A3 & _).
  apply f_add_ge_right; [exact HL | rewrite A1; exact Hn | exact (A3 Hn)].
Qed.

(* T2'.  x = -|b| + U; the inclusive clamp of [adjust_upper] never fires. *)
Theorem arb_float_inner_upper_incl (is64 : bool) (d : decl) (vs : list validator) (bs : bytes) (U : Z) :
  fboundaries d vs None None = (None, Some {| fb_val := U; fb_incl := true |}) ->
  f_is_finite is64 U = true ->
  exists x, arb_float_inner is64 d vs bs = Some x /\ f_le is64 x U = true.
Proof.
  intros Hb HU. unfold arb_float_inner. rewrite Hb.
  destruct (base_value_model_fuel is64 (base_kind_of vs) bs) as (b & r & H & Hc).
  rewrite H. cbn [obind fst fb_val]. unfold adjust_upper. cbn [fb_incl fb_val].
  eexists. split; [reflexivity|].
  assert (Hn : f_is_nan is64 b = false).
  { eapply base_cond_not_nan; [exact Hb | right; discriminate | exact Hc]. }
  destruct (f_negabs_spec is64 b) as (A1 & A2).
  assert (Hle : f_le is64 (f_add is64 (fb_neg is64 (fb_abs is64 b)) U) U = true).
  { apply f_add_le_right; [exact HU | rewrite A1; exact Hn | exact (A2 Hn)]. }
  (* the clamp never fires *)
  assert (Hgt : f_gt is64 (f_add is64 (fb_neg is64 (fb_abs is64 b)) U) U = false).
  { revert Hle. unfold f_le, f_gt. destruct (fcmp is64 _ U) as [[| |]|]; congruence. }
  rewrite Hgt. exact Hle.
Qed.

Theorem arb_float_lower_incl_ok (lib : fnlib) (d : decl) (is64 : bool) (bnd : bound) (bs : bytes) :
  d_family d = FFloat is64 -> d_sans d = [] ->
  d_validation d = Some (RVStandard [VGreaterOrEqual bnd]) ->
  f_is_finite is64 (bval d bnd) = true ->
  exists x, arb_float lib d bs = OOk (VF x) /\ f_ge is64 x (bval d bnd) = true.
Proof.
  intros Hf Hs Hv HL.
  destruct (arb_float_inner_lower_incl is64 d [VGreaterOrEqual bnd] bs (bval d bnd) eq_refl HL) as (x & Hi & Hx).
  exists x. split; [|exact Hx].
  apply (arb_float_ok_of_checks lib d is64 _ bs x Hf Hs Hv Hi).
  intros v [<-|[]]. unfold check_of. rewrite Hf. apply fail_none.
  revert Hx. unfold f_ge, f_lt. destruct (fcmp is64 x (bval d bnd)) as [[| |]|]; congruence.
Qed.

Theorem arb_float_upper_incl_ok (lib : fnlib) (d : decl) (is64 : bool) (bnd : bound) (bs : bytes) :
  d_family d = FFloat is64 -> d_sans d = [] ->
  d_validation d = Some (RVStandard [VLessOrEqual bnd]) ->
  f_is_finite is64 (bval d bnd) = true ->
  exists x, arb_float lib d bs = OOk (VF x) /\ f_le is64 x (bval d bnd) = true.
Proof.
  intros Hf Hs Hv HU.
  destruct (arb_float_inner_upper_incl is64 d [VLessOrEqual bnd] bs (bval d bnd) eq_refl HU) as (x & Hi & Hx).
  exists x. split; [|exact Hx].
  apply (arb_float_ok_of_checks lib d is64 _ bs x Hf Hs Hv Hi).
  intros v [<-|[]]. unfold check_of. rewrite Hf. apply fail_none.
  revert Hx. unfold f_le, f_gt. destruct (fcmp is64 x (bval d bnd)) as [[| |]|]; congruence.
Qed.

(* ====================================================================================== *)
(* 6. T3: two inclusive bounds                                                            *)
(* ====================================================================================== *)

Lemma take_pad_value_bound (n : nat) : forall (bs : bytes) (l : list Z) (r : bytes),
  bytes_ok bs = true -> take_pad n bs = (l, r) -> 0 <= le_value l < 256 ^ Z.of_nat n.
Proof.
  induction n as [|n IH]; intros bs l r Hb H; cbn [take_pad] in H.
  - injection H as <- <-. cbn. lia.
  - rewrite Nat2Z.inj_succ, Z.pow_succ_r by lia. destruct bs as [|b bs'].
    + destruct (take_pad n []) as [l' r'] eqn:E. injection H as <- <-.
      specialize (IH [] l' r' eq_refl E). cbn [le_value]. lia.
    + destruct (take_pad n bs') as [l' r'] eqn:E. injection H as <- <-.
      unfold bytes_ok in Hb. cbn [forallb] in Hb. apply andb_true_iff in Hb. destruct Hb as [Hb0 Hb'].
      specialize (IH bs' l' r' Hb' E). cbn [le_value]. unfold byte_ok in Hb0. lia.
Qed.

Lemma arb_uint_bound (n : nat) (bs : bytes) :
  bytes_ok bs = true -> 0 <= fst (arb_uint n bs) < 256 ^ Z.of_nat n.
Proof.
  intros Hb. unfold arb_uint. destruct (take_pad n bs) as [l r] eqn:E. cbn [fst].
  exact (take_pad_value_bound n bs l r Hb E).
Qed.

Lemma arb_uint_fsize_bound (is64 : bool) (bs : bytes) :
  bytes_ok bs = true -> 0 <= fst (arb_uint (fsize is64) bs) <= uint_max is64.
Proof.
  intros Hb. pose proof (arb_uint_bound (fsize is64) bs Hb) as H. revert H.
  unfold fsize, uint_max. destruct is64.
  - change (256 ^ Z.of_nat 8) with (2 ^ 64). lia.
  - change (256 ^ Z.of_nat 4) with (2 ^ 32). lia.
Qed.

(* (n as f) / (uN::MAX as f) is a finite float in [0,1] *)
Lemma f_unit_ratio (is64 : bool) (n : Z) : 0 <= n <= uint_max is64 ->
  f_is_finite is64 (f_div is64 (f_of_Z is64 n) (f_of_Z is64 (uint_max is64))) = true /\
  (0 <= f_real is64 (f_div is64 (f_of_Z is64 n) (f_of_Z is64 (uint_max is64))) <= 1)%R.
Proof.
  unfold f_is_finite, f_real, f_div, f_binop, f_of_Z, uint_max. destruct is64; intros Hn.
  - rewrite !b64_of_bits_of_b64. unfold b64_div. apply (binorm_ratio 53 1024) with (k := 64); lia.
  - rewrite !b32_of_bits_of_b32. unfold b32_div. apply (binorm_ratio 24 128) with (k := 32); lia.
Qed.

Lemma f_mul_unit (is64 : bool) (u r : Z) :
  f_is_finite is64 u = true -> f_is_finite is64 r = true ->
  (0 <= f_real is64 u <= 1)%R -> (0 <= f_real is64 r)%R ->
  f_is_finite is64 (f_mul is64 u r) = true /\ (0 <= f_real is64 (f_mul is64 u r))%R.
Proof.
  unfold f_is_finite, f_real, f_mul, f_binop. destruct is64.
  - rewrite !b64_of_bits_of_b64. unfold b64_mult. apply Bmult_unit.
  - rewrite !b32_of_bits_of_b32. unfold b32_mult. apply Bmult_unit.
Qed.

Lemma f_ge0_of_real (is64 : bool) (p : Z) :
  f_is_finite is64 p = true -> (0 <= f_real is64 p)%R -> f_ge is64 p 0 = true.
Proof.
  rewrite f_ge_B. unfold f_is_finite, f_real. destruct is64; intros Hf Hr.
  - rewrite b64_of_bits_0. apply Bge_finite; [exact Hf | reflexivity | exact Hr].
  - rewrite b32_of_bits_0. apply Bge_finite; [exact Hf | reflexivity | exact Hr].
Qed.

(* The scaled value L + u * |U - L| is never below L (u >= 0, the range >= 0, rounding is
   monotone); it may exceed U by rounding -- or even overflow to +inf when U is the largest
   float -- and the inclusive clamp of [adjust_upper] then returns U itself.
   [bytes_ok] is needed: a byte outside 0..255 can make the drawn integer negative. *)
Theorem arb_float_inner_two_incl (is64 : bool) (d : decl) (vs : list validator) (bs : bytes) (L U : Z) :
  fboundaries d vs None None =
    (Some {| fb_val := L; fb_incl := true |}, Some {| fb_val := U; fb_incl := true |}) ->
  bytes_ok bs = true ->
  f_is_finite is64 L = true -> f_is_finite is64 U = true -> f_le is64 L U = true ->
  f_is_finite is64 (f_sub is64 U L) = true ->
  exists x, arb_float_inner is64 d vs bs = Some x /\ f_le is64 L x = true /\ f_le is64 x U = true.
Proof.
  intros Hb Hok HL HU HLU Hrange. unfold arb_float_inner. rewrite Hb. unfold from0to1.
  pose proof (arb_uint_fsize_bound is64 bs Hok) as Hn.
  destruct (arb_uint (fsize is64) bs) as [n r]. cbn [fst] in Hn. cbn [fb_val].
  unfold adjust_lower, adjust_upper. cbn [fb_incl fb_val].
  eexists. split; [reflexivity|].
  destruct (f_unit_ratio is64 n Hn) as [Fu Ru].
  set (u := f_div is64 (f_of_Z is64 n) (f_of_Z is64 (uint_max is64))) in *.
  destruct (f_abs_spec is64 (f_sub is64 U L)) as (_ & A2 & _ & A4).
  set (range := fb_abs is64 (f_sub is64 U L)) in *.
  assert (Fr : f_is_finite is64 range = true) by (rewrite A2; exact Hrange).
  destruct (f_mul_unit is64 u range Fu Fr Ru (A4 Hrange)) as [Fp Rp].
  set (p := f_mul is64 u range) in *.
  assert (Hx0 : f_ge is64 (f_add is64 L p) L = true).
  { apply f_add_ge_left; [exact HL | apply finite_not_nan; exact Fp | apply f_ge0_of_real; assumption]. }
  set (x0 := f_add is64 L p) in *.
  rewrite f_ge_le_swap in Hx0.
  pose proof (finite_not_nan is64 U HU) as NU.
  destruct (f_gt is64 x0 U) eqn:G.
  - split; [exact HLU|]. unfold f_le. rewrite (fcmp_refl is64 U NU). reflexivity.
  - split; [exact Hx0|].
    destruct (f_le_not_nan is64 L x0 Hx0) as [_ Nx].
    destruct (fcmp_total is64 x0 U Nx NU) as [c Hc].
    revert G. unfold f_gt, f_le. rewrite Hc. destruct c; congruence.
Qed.

Theorem arb_float_two_incl_ok (lib : fnlib) (d : decl) (is64 : bool) (vs : list validator)
    (bl bu : bound) (bs : bytes) :
  d_family d = FFloat is64 -> d_sans d = [] -> d_validation d = Some (RVStandard vs) ->
  vs = [VGreaterOrEqual bl; VLessOrEqual bu] \/ vs = [VLessOrEqual bu; VGreaterOrEqual bl] ->
  bytes_ok bs = true ->
  f_is_finite is64 (bval d bl) = true -> f_is_finite is64 (bval d bu) = true ->
  f_le is64 (bval d bl) (bval d bu) = true ->
  f_is_finite is64 (f_sub is64 (bval d bu) (bval d bl)) = true ->
  exists x, arb_float lib d bs = OOk (VF x) /\
            f_le is64 (bval d bl) x = true /\ f_le is64 x (bval d bu) = true.
Proof.
  intros Hf Hs Hv Hvs Hok HL HU HLU Hr.
  assert (Hb : fboundaries d vs None None =
               (Some {| fb_val := bval d bl; fb_incl := true |}, Some {| fb_val := bval d bu; fb_incl := true |}))
    by (destruct Hvs as [-> | ->]; reflexivity).
  destruct (arb_float_inner_two_incl is64 d vs bs _ _ Hb Hok HL HU HLU Hr) as (x & Hi & H1 & H2).
  exists x. split; [|split; assumption].
  apply (arb_float_ok_of_checks lib d is64 vs bs x Hf Hs Hv Hi).
  assert (C1 : check_of lib d (VGreaterOrEqual bl) (VF x) = None).
  { unfold check_of. rewrite Hf. apply fail_none. rewrite <- f_ge_le_swap in H1.
    revert H1. unfold f_ge, f_lt. destruct (fcmp is64 x (bval d bl)) as [[| |]|]; congruence. }
  assert (C2 : check_of lib d (VLessOrEqual bu) (VF x) = None).
  { unfold check_of. rewrite Hf. apply fail_none.
    revert H2. unfold f_le, f_gt. destruct (fcmp is64 x (bval d bu)) as [[| |]|]; congruence. }
  intros v Hin. destruct Hvs as [-> | ->]; destruct Hin as [<-|[<-|[]]]; assumption.
Qed.

(* ====================================================================================== *)
(* 7. Strengthenings of T3                                                                *)
(* ====================================================================================== *)

Section BinGeneric2.
  Variable prec emax : Z.
  Context (prec_gt_0_ : Prec_gt_0 prec).
  Context (prec_lt_emax_ : Prec_lt_emax prec emax).
  Notation bf := (Binary.binary_float prec emax).
  Notation is_finite := (Binary.is_finite prec emax).
  Notation Bminus := (Binary.Bminus prec emax prec_gt_0_ prec_lt_emax_).

  (* a finite difference has finite operands *)
  Lemma Bminus_finite_inv nan m (x y : bf) :
    is_finite (Bminus nan m x y) = true -> is_finite x = true /\ is_finite y = true.
  Proof.
    destruct x as [sx|sx|sx px Hx|sx mx ex Hx], y as [sy|sy|sy py Hy|sy my ey Hy];
      try (intros _; split; reflexivity); unfold Binary.Bminus; cbn;
      try (intros H; discriminate H);
      try (rewrite is_finite_build_nan; intros H; discriminate H).
    all: destruct sx, sy; cbn; try (intros H; discriminate H);
      try (rewrite is_finite_build_nan; intros H; discriminate H).
  Qed.

  (* anything between two finite numbers is finite *)
  Lemma between_finite (l x u : bf) : is_finite l = true -> is_finite u = true ->
    Ble prec emax l x = true -> Ble prec emax x u = true -> is_finite x = true.
  Proof.
    intros Fl Fu. destruct x as [s|[|]|s pl H|s m e H]; try reflexivity; intros H1 H2; exfalso.
    - destruct l as [?|?|? ? ?|[|] ? ? ?]; cbn in *; discriminate.
    - destruct u as [?|?|? ? ?|[|] ? ? ?]; cbn in *; discriminate.
    - destruct u as [?|?|? ? ?|[|] ? ? ?]; cbn in *; discriminate.
  Qed.
End BinGeneric2.

Lemma f_sub_finite_inv (is64 : bool) (x y : Z) :
  f_is_finite is64 (f_sub is64 x y) = true -> f_is_finite is64 x = true /\ f_is_finite is64 y = true.
Proof.
  unfold f_is_finite, f_sub, f_binop. destruct is64.
  - rewrite b64_of_bits_of_b64. unfold b64_minus. apply Bminus_finite_inv.
  - rewrite b32_of_bits_of_b32. unfold b32_minus. apply Bminus_finite_inv.
Qed.

Lemma f_between_finite (is64 : bool) (l x u : Z) :
  f_is_finite is64 l = true -> f_is_finite is64 u = true ->
  f_le is64 l x = true -> f_le is64 x u = true -> f_is_finite is64 x = true.
Proof.
  rewrite !f_le_B. unfold f_is_finite. destruct is64; apply between_finite.
Qed.

(* T3 with the minimal hypotheses: the finiteness of both bounds follows from the finiteness of
   their difference; the value produced is moreover finite *)
Theorem arb_float_inner_two_incl_strong (is64 : bool) (d : decl) (vs : list validator) (bs : bytes) (L U : Z) :
  fboundaries d vs None None =
    (Some {| fb_val := L; fb_incl := true |}, Some {| fb_val := U; fb_incl := true |}) ->
  bytes_ok bs = true -> f_le is64 L U = true -> f_is_finite is64 (f_sub is64 U L) = true ->
  exists x, arb_float_inner is64 d vs bs = Some x /\
            f_le is64 L x = true /\ f_le is64 x U = true /\ f_is_finite is64 x = true.
Proof.
  intros Hb Hok HLU Hr. destruct (f_sub_finite_inv is64 U L Hr) as [HU HL].
  destruct (arb_float_inner_two_incl is64 d vs bs L U Hb Hok HL HU HLU Hr) as (x & Hi & H1 & H2).
  exists x. repeat split; try assumption. exact (f_between_finite is64 L x U HL HU H1 H2).
Qed.

(* lift: any list made of `finite`, `greater_or_equal = bl`, `less_or_equal = bu` whose
   boundaries are the two inclusive ones (both orders, with or without `finite`) *)
Theorem arb_float_two_incl_finite_ok (lib : fnlib) (d : decl) (is64 : bool) (vs : list validator)
    (bl bu : bound) (bs : bytes) :
  d_family d = FFloat is64 -> d_sans d = [] -> d_validation d = Some (RVStandard vs) ->
  (forall v, In v vs -> v = VFinite \/ v = VGreaterOrEqual bl \/ v = VLessOrEqual bu) ->
  fboundaries d vs None None =
    (Some {| fb_val := bval d bl; fb_incl := true |}, Some {| fb_val := bval d bu; fb_incl := true |}) ->
  bytes_ok bs = true ->
  f_le is64 (bval d bl) (bval d bu) = true ->
  f_is_finite is64 (f_sub is64 (bval d bu) (bval d bl)) = true ->
  exists x, arb_float lib d bs = OOk (VF x) /\
            f_le is64 (bval d bl) x = true /\ f_le is64 x (bval d bu) = true /\ f_is_finite is64 x = true.
Proof.
  intros Hf Hs Hv Hvs Hb Hok HLU Hr.
  destruct (arb_float_inner_two_incl_strong is64 d vs bs _ _ Hb Hok HLU Hr) as (x & Hi & H1 & H2 & H3).
  exists x. split; [|repeat split; assumption].
  apply (arb_float_ok_of_checks lib d is64 vs bs x Hf Hs Hv Hi).
  intros v Hin. destruct (Hvs v Hin) as [-> | [-> | ->]]; unfold check_of; rewrite Hf; apply fail_none.
  - rewrite H3. reflexivity.
  - rewrite <- f_ge_le_swap in H1.
    revert H1. unfold f_ge, f_lt. destruct (fcmp is64 x (bval d bl)) as [[| |]|]; congruence.
  - revert H2. unfold f_le, f_gt. destruct (fcmp is64 x (bval d bu)) as [[| |]|]; congruence.
Qed.

(* no validation at all: the raw draw is wrapped *)
Theorem arb_float_no_validation_ok (lib : fnlib) (d : decl) (is64 : bool) (bs : bytes) :
  d_family d = FFloat is64 -> d_validation d = None -> exists v, arb_float lib d bs = OOk v.
Proof.
  intros Hf Hv. unfold arb_float. rewrite Hf, Hv. destruct (arb_uint (fsize is64) bs). eexists. reflexivity.
Qed.

(* ====================================================================================== *)
(* 8. Non-vacuity: the hypotheses are met by concrete declarations                         *)
(* ====================================================================================== *)

Definition valid_ex (is64 : bool) (vs : list validator) : decl :=
  {| d_family := FFloat is64; d_name := "T"; d_vis := "pub"; d_generics := []; d_sans := [];
     d_validation := Some (RVStandard vs); d_new_unchecked := false; d_const_fn := false;
     d_default := None; d_traits := [TrArbitrary]; d_env := [] |}.

(* f64, greater_or_equal = -1.1, less_or_equal = 0.1 (the declaration of
   C09_float_inclusive_upper_clamped): valid for EVERY well-formed byte string *)
Example two_incl_instance (lib : fnlib) (bs : bytes) : bytes_ok bs = true ->
  let d := valid_ex true [VGreaterOrEqual (BLit 13831004815617530266); VLessOrEqual (BLit 4591870180066957722)] in
  exists x, arb_float lib d bs = OOk (VF x) /\
            f_le true 13831004815617530266 x = true /\ f_le true x 4591870180066957722 = true.
Proof.
  intros Hok d.
  apply (arb_float_two_incl_ok lib d true
           [VGreaterOrEqual (BLit 13831004815617530266); VLessOrEqual (BLit 4591870180066957722)]
           (BLit 13831004815617530266) (BLit 4591870180066957722) bs).
  - reflexivity.
  - reflexivity.
  - reflexivity.
  - left. reflexivity.
  - exact Hok.
  - vm_compute. reflexivity.
  - vm_compute. reflexivity.
  - vm_compute. reflexivity.
  - vm_compute. reflexivity.
Qed.

(* the overflow corner of T3: f32, L = 1.5 * 2^104, U = f32::MAX, all-ones bytes (u = 1.0):
   fl(U - L) = MAX - 2^104 and L + fl(U - L) = MAX + 2^103 is a tie that rounds to +inf; the
   inclusive clamp returns U *)
Example two_incl_overflow_corner :
  let L := 1941962752 in let U := 2139095039 in
  let u := fst (from0to1 false [255; 255; 255; 255]) in
  f_add false L (f_mul false u (fb_abs false (f_sub false U L))) = 2139095040 (* +inf *) /\
  arb_float_inner false (valid_ex false []) [VGreaterOrEqual (BLit L); VLessOrEqual (BLit U)]
    [255; 255; 255; 255] = Some U.
Proof. vm_compute. split; reflexivity. Qed.

(* [bytes_ok] cannot be dropped from T3: "bytes" of -1 make the drawn integer negative, the
   factor negative, and the value falls below the lower bound (f32, [1.0, 2.0]: 0.99607843) *)
Example two_incl_needs_bytes_ok :
  arb_float_inner false (valid_ex false [])
    [VGreaterOrEqual (BLit 1065353216); VLessOrEqual (BLit 1073741824)] [-1; -1; -1; -1] = Some 1065287423 /\
  f_le false 1065353216 1065287423 = false.
Proof. vm_compute. split; reflexivity. Qed.
