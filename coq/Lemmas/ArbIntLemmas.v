(* The integer Arbitrary range is exactly the valid range (C14) and every generated value is
   valid (C09, integers). *)
From NV Require Import Base.Util Base.IntTy Base.Expr Macro.Surface Macro.Ast
     Sem.Guard Sem.Value Sem.Eval Sem.Bytes Sem.ArbInt Spec.GuardSpec
     Lemmas.GuardLemmas Lemmas.DeclLemmas Lemmas.BytesLemmas.
From Coq Require Import Zify ZifyBool.
Local Open Scope Z_scope.

Definition is_lower (v : validator) : bool :=
  match v with VGreater _ | VGreaterOrEqual _ => true | _ => false end.
Definition is_upper (v : validator) : bool :=
  match v with VLess _ | VLessOrEqual _ => true | _ => false end.
Definition is_bound_validator (v : validator) : bool := is_lower v || is_upper v.

(* at most one lower and at most one upper bound: what validate_numeric_bounds guarantees for
   literal bounds (two expression-valued lower bounds are NOT refused by the macro) *)
Fixpoint single_bounds (vs : list validator) : bool :=
  match vs with
  | [] => true
  | v :: r =>
      (if is_lower v then negb (existsb is_lower r) else true) &&
      (if is_upper v then negb (existsb is_upper r) else true) && single_bounds r
  end.

Section Decl.
  Variable lib : fnlib.

  Lemma boundary_no_lower (d : decl) (t : int_ty) (vs : list validator) :
    forall lo hi lo' hi', existsb is_lower vs = false ->
      boundary d t vs lo hi = Some (lo', hi') -> lo' = lo.
  Proof.
    induction vs as [|v vs IH]; intros lo hi lo' hi' Hn H; cbn in *.
    - injection H as <- <-. reflexivity.
    - destruct v; cbn in Hn; try discriminate; try (eapply IH; eauto; fail).
      destruct (in_ty t (bval d b - 1)); [eapply IH; eauto | discriminate].
  Qed.

  Lemma boundary_no_upper (d : decl) (t : int_ty) (vs : list validator) :
    forall lo hi lo' hi', existsb is_upper vs = false ->
      boundary d t vs lo hi = Some (lo', hi') -> hi' = hi.
  Proof.
    induction vs as [|v vs IH]; intros lo hi lo' hi' Hn H; cbn in *.
    - injection H as <- <-. reflexivity.
    - destruct v; cbn in Hn; try discriminate; try (eapply IH; eauto; fail).
      destruct (in_ty t (bval d b + 1)); [eapply IH; eauto | discriminate].
  Qed.

  Definition all_hold (d : decl) (vs : list validator) (x : Z) : bool :=
    forallb (fun v => holds lib d v (VI x)) vs.

  Lemma boundary_spec (d : decl) (tn : string) (t : int_ty) (vs : list validator) :
    d_family d = FInt tn t ->
    forall lo hi lo' hi' x,
      forallb is_bound_validator vs = true -> single_bounds vs = true ->
      boundary d t vs lo hi = Some (lo', hi') ->
      ((existsb is_lower vs = true \/ lo <= x) /\ (existsb is_upper vs = true \/ x <= hi) /\
       all_hold d vs x = true) <-> lo' <= x <= hi'.
  Proof.
    intros Hf. induction vs as [|v vs IH]; intros lo hi lo' hi' x Hb Hs H.
    - cbn in *. injection H as <- <-. intuition (try discriminate; lia).
    - cbn [forallb] in Hb. apply andb_prop in Hb. destruct Hb as [Hbv Hb].
      cbn [single_bounds] in Hs. apply andb_prop in Hs. destruct Hs as [Hs1 Hs].
      apply andb_prop in Hs1. destruct Hs1 as [Hsl Hsu].
      unfold all_hold in *. cbn [forallb existsb].
      destruct v; cbn in Hbv; try discriminate; cbn [boundary] in H; cbn [is_lower is_upper] in *.
      + (* greater *)
        destruct (in_ty t (bval d b + 1)) eqn:Hin; [|discriminate].
        rewrite negb_true_iff in Hsl.
        specialize (IH _ _ _ _ x Hb Hs H). rewrite Hsl in IH.
        unfold holds at 1. rewrite Hf. cbn [orb]. split.
        * intros (_ & Hu & Hh). apply andb_prop in Hh. destruct Hh as [Hg Hh]. apply IH.
          split; [right; lia|]. split; [exact Hu | exact Hh].
        * intros Hr. apply IH in Hr. destruct Hr as ([Hx|Hx] & Hu & Hh); [discriminate|].
          split; [left; reflexivity|]. split; [exact Hu|]. rewrite Hh.
          assert (x >? bval d b = true) by lia. rewrite H0. reflexivity.
      + (* greater_or_equal *)
        rewrite negb_true_iff in Hsl.
        specialize (IH _ _ _ _ x Hb Hs H). rewrite Hsl in IH.
        unfold holds at 1. rewrite Hf. cbn [orb]. split.
        * intros (_ & Hu & Hh). apply andb_prop in Hh. destruct Hh as [Hg Hh]. apply IH.
          split; [right; lia|]. split; [exact Hu | exact Hh].
        * intros Hr. apply IH in Hr. destruct Hr as ([Hx|Hx] & Hu & Hh); [discriminate|].
          split; [left; reflexivity|]. split; [exact Hu|]. rewrite Hh.
          assert (x >=? bval d b = true) by lia. rewrite H0. reflexivity.
      + (* less *)
        destruct (in_ty t (bval d b - 1)) eqn:Hin; [|discriminate].
        rewrite negb_true_iff in Hsu.
        specialize (IH _ _ _ _ x Hb Hs H). rewrite Hsu in IH.
        unfold holds at 1. rewrite Hf. cbn [orb]. split.
        * intros (Hl & _ & Hh). apply andb_prop in Hh. destruct Hh as [Hg Hh]. apply IH.
          split; [exact Hl|]. split; [right; lia | exact Hh].
        * intros Hr. apply IH in Hr. destruct Hr as (Hl & [Hx|Hx] & Hh); [discriminate|].
          split; [exact Hl|]. split; [left; reflexivity|]. rewrite Hh.
          assert (x <? bval d b = true) by lia. rewrite H0. reflexivity.
      + (* less_or_equal *)
        rewrite negb_true_iff in Hsu.
        specialize (IH _ _ _ _ x Hb Hs H). rewrite Hsu in IH.
        unfold holds at 1. rewrite Hf. cbn [orb]. split.
        * intros (Hl & _ & Hh). apply andb_prop in Hh. destruct Hh as [Hg Hh]. apply IH.
          split; [exact Hl|]. split; [right; lia | exact Hh].
        * intros Hr. apply IH in Hr. destruct Hr as (Hl & [Hx|Hx] & Hh); [discriminate|].
          split; [exact Hl|]. split; [left; reflexivity|]. rewrite Hh.
          assert (x <=? bval d b = true) by lia. rewrite H0. reflexivity.
  Qed.

  (* C14, first half: the generator's range is exactly the valid range *)
  Theorem arb_range_eq_valid (d : decl) (tn : string) (t : int_ty) (vs : list validator) (lo hi x : Z) :
    d_family d = FInt tn t -> d_validation d = Some (RVStandard vs) ->
    forallb is_bound_validator vs = true -> single_bounds vs = true ->
    arb_boundary d = Some (lo, hi) -> in_ty t x = true ->
    (spec_valid lib d (VI x) = true <-> lo <= x <= hi).
  Proof.
    intros Hf Hv Hb Hs Ha Hx. unfold arb_boundary in Ha. rewrite Hf in Ha.
    unfold standard_validators in Ha. rewrite Hv in Ha.
    pose proof (boundary_spec d tn t vs Hf _ _ _ _ x Hb Hs Ha) as Hspec.
    unfold spec_valid. rewrite Hv. unfold all_hold in Hspec.
    unfold in_ty, in_range in Hx. split.
    - intros Hh. apply Hspec. split; [right; lia|]. split; [right; lia | exact Hh].
    - intros Hr. apply Hspec in Hr. tauto.
  Qed.

  Lemma boundary_in_ty (d : decl) (t : int_ty) (vs : list validator) :
    (forall v b, In v vs -> bound_of v = Some b -> in_ty t (bval d b) = true) ->
    forall lo hi lo' hi', in_ty t lo = true -> in_ty t hi = true ->
      boundary d t vs lo hi = Some (lo', hi') -> in_ty t lo' = true /\ in_ty t hi' = true.
  Proof.
    induction vs as [|v vs IH]; intros Hbs lo hi lo' hi' Hlo Hhi H; cbn in H.
    - injection H as <- <-. auto.
    - assert (Hbs' : forall v' b, In v' vs -> bound_of v' = Some b -> in_ty t (bval d b) = true)
        by (intros v' b' Hin; apply Hbs; right; exact Hin).
      destruct v; try (apply (IH Hbs' _ _ _ _ Hlo Hhi H)).
      + destruct (in_ty t (bval d b + 1)) eqn:E; [apply (IH Hbs' _ _ _ _ E Hhi H) | discriminate].
      + refine (IH Hbs' _ _ _ _ _ Hhi H).
        apply (Hbs (VGreaterOrEqual b) b); [left; reflexivity | reflexivity].
      + destruct (in_ty t (bval d b - 1)) eqn:E; [apply (IH Hbs' _ _ _ _ Hlo E H) | discriminate].
      + refine (IH Hbs' _ _ _ _ Hlo _ H).
        apply (Hbs (VLessOrEqual b) b); [left; reflexivity | reflexivity].
  Qed.
End Decl.

Section Top.
  Variable lib : fnlib.

  Lemma in_ty_span (t : int_ty) (lo hi : Z) :
    0 < bits t -> in_ty t lo = true -> in_ty t hi = true -> hi - lo <= 2 ^ bits t - 1.
  Proof.
    intros Hb. unfold in_ty, in_range, ity_min, ity_max. destruct (signed t); intros H1 H2.
    - assert (2 ^ bits t = 2 * 2 ^ (bits t - 1)).
      { replace (bits t) with (Z.succ (bits t - 1)) at 1 by lia. rewrite Z.pow_succ_r by lia. reflexivity. }
      lia.
    - lia.
  Qed.

  Lemma in_ty_between (t : int_ty) (lo hi x : Z) :
    in_ty t lo = true -> in_ty t hi = true -> lo <= x <= hi -> in_ty t x = true.
  Proof. unfold in_ty, in_range. lia. Qed.

  Definition bounds_in_ty (d : decl) (t : int_ty) (vs : list validator) : Prop :=
    forall v b, In v vs -> bound_of v = Some b -> in_ty t (bval d b) = true.

  Lemma ity_min_max_in (t : int_ty) : 0 < bits t -> in_ty t (ity_min t) = true /\ in_ty t (ity_max t) = true.
  Proof.
    intros Hb. unfold in_ty, in_range, ity_min, ity_max.
    assert (0 < 2 ^ (bits t - 1)) by (apply Z.pow_pos_nonneg; lia).
    assert (0 < 2 ^ bits t) by (apply Z.pow_pos_nonneg; lia).
    destruct (signed t); lia.
  Qed.

  Lemma try_new_valid_int (d : decl) (tn : string) (t : int_ty) (x : Z) :
    d_family d = FInt tn t -> d_sans d = [] -> spec_valid lib d (VI x) = true ->
    d_try_new lib d (VI x) = Ok (VI x).
  Proof.
    intros Hf Hs Hv.
    assert (Hsan : spec_sanitize lib d (VI x) = VI x) by (unfold spec_sanitize; rewrite Hs; reflexivity).
    apply try_new_ok_iff_spec.
    - unfold comparable. rewrite Hf. reflexivity.
    - rewrite Hsan. auto.
  Qed.

  (* C09 (integers): total, never panics, only valid values *)
  Theorem arb_int_valid (d : decl) (tn : string) (t : int_ty) (vs : list validator) (lo hi : Z) (bs : bytes) :
    wf_bits t -> d_family d = FInt tn t -> d_sans d = [] ->
    d_validation d = Some (RVStandard vs) ->
    forallb is_bound_validator vs = true -> single_bounds vs = true -> bounds_in_ty d t vs ->
    arb_boundary d = Some (lo, hi) -> lo <= hi -> bytes_ok bs = true ->
    exists x, arb_int lib d bs = OOk (VI x) /\ spec_valid lib d (VI x) = true.
  Proof.
    intros Hw Hf Hs Hv Hb Hsb Hbt Ha Hle Hbs.
    assert (Hbits : 0 < bits t) by (destruct Hw as (k & Hk & ->); lia).
    destruct (ity_min_max_in t Hbits) as [Hmin Hmax].
    assert (Hlh : in_ty t lo = true /\ in_ty t hi = true).
    { unfold arb_boundary in Ha. rewrite Hf in Ha. unfold standard_validators in Ha. rewrite Hv in Ha.
      exact (boundary_in_ty d t vs Hbt _ _ _ _ Hmin Hmax Ha). }
    destruct Hlh as [Hlo Hhi].
    destruct (int_in_range_in_bounds t lo hi bs Hw Hbs Hle (in_ty_span t lo hi Hbits Hlo Hhi))
      as (x & r & Hir & Hx).
    exists x. unfold arb_int. rewrite Hf, Ha, Hir.
    assert (Hval : spec_valid lib d (VI x) = true).
    { apply (arb_range_eq_valid lib d tn t vs lo hi x Hf Hv Hb Hsb Ha (in_ty_between t lo hi x Hlo Hhi Hx)). exact Hx. }
    unfold has_validation. rewrite Hv.
    rewrite (try_new_valid_int d tn t x Hf Hs Hval). split; [reflexivity | exact Hval].
  Qed.

  (* C14: every valid value is produced by some byte input *)
  Theorem arb_int_surjective (d : decl) (tn : string) (t : int_ty) (vs : list validator) (lo hi x : Z) :
    wf_bits t -> d_family d = FInt tn t -> d_sans d = [] ->
    d_validation d = Some (RVStandard vs) ->
    forallb is_bound_validator vs = true -> single_bounds vs = true -> bounds_in_ty d t vs ->
    arb_boundary d = Some (lo, hi) ->
    in_ty t x = true -> spec_valid lib d (VI x) = true ->
    exists bs, bytes_ok bs = true /\ arb_int lib d bs = OOk (VI x).
  Proof.
    intros Hw Hf Hs Hv Hb Hsb Hbt Ha Hx Hval.
    assert (Hbits : 0 < bits t) by (destruct Hw as (k & Hk & ->); lia).
    destruct (ity_min_max_in t Hbits) as [Hmin Hmax].
    assert (Hlh : in_ty t lo = true /\ in_ty t hi = true).
    { unfold arb_boundary in Ha. rewrite Hf in Ha. unfold standard_validators in Ha. rewrite Hv in Ha.
      exact (boundary_in_ty d t vs Hbt _ _ _ _ Hmin Hmax Ha). }
    destruct Hlh as [Hlo Hhi].
    assert (Hr : lo <= x <= hi) by (apply (arb_range_eq_valid lib d tn t vs lo hi x Hf Hv Hb Hsb Ha Hx); exact Hval).
    destruct (int_in_range_surjective t lo hi x Hw Hr (in_ty_span t lo hi Hbits Hlo Hhi))
      as (bs & Hok & r & Hir).
    exists bs. split; [exact Hok|]. unfold arb_int. rewrite Hf, Ha, Hir.
    unfold has_validation. rewrite Hv. rewrite (try_new_valid_int d tn t x Hf Hs Hval). reflexivity.
  Qed.

  (* without validation: the whole type is the valid set and `new` wraps the sanitized value *)
  Theorem arb_int_no_validation (d : decl) (tn : string) (t : int_ty) (bs : bytes) :
    wf_bits t -> d_family d = FInt tn t -> d_validation d = None -> bytes_ok bs = true ->
    exists v, arb_int lib d bs = OOk v.
  Proof.
    intros Hw Hf Hv Hbs.
    assert (Hbits : 0 < bits t) by (destruct Hw as (k & Hk & ->); lia).
    destruct (ity_min_max_in t Hbits) as [Hmin Hmax].
    unfold arb_int, arb_boundary, standard_validators, has_validation. rewrite Hf, Hv. cbn [boundary].
    assert (Hle : ity_min t <= ity_max t) by (unfold in_ty, in_range in *; lia).
    destruct (int_in_range_in_bounds t _ _ bs Hw Hbs Hle (in_ty_span t _ _ Hbits Hmin Hmax)) as (x & r & Hir & _).
    rewrite Hir. eauto.
  Qed.
End Top.
