(* JSON text of strings and integers (Sem.Json): reading what was written gives the value back,
   the written string has no raw control character and no unescaped quote between its two
   delimiters, and the abstract round trip of Lemmas.SerdeLemmas instantiated with this format. *)
From NV Require Import Base.Util Base.IntTy Base.Expr Macro.Surface Macro.Ast Sem.Guard Sem.Value
     Sem.Eval Sem.Conv Sem.Text Sem.Json Sem.Serde Spec.GuardSpec Lemmas.ConvLemmas
     Lemmas.GuardLemmas Lemmas.CanonLemmas Lemmas.TextLemmas Lemmas.SerdeLemmas Lemmas.OrderLemmas.
From Coq Require Import Decimal DecimalZ DecimalPos DecimalFacts.
Local Open Scope N_scope.

(* ------------------------------------------------------------------ hex digits *)

Lemma hex_digit_range (n : N) :
  (48 <= hex_digit n /\ hex_digit n <= 57) \/ 97 <= hex_digit n.
Proof. unfold hex_digit. destruct (N.ltb_spec n 10) as [Hlt|Hge]; lia. Qed.

Lemma hex_val_digit (n : N) : n < 16 -> hex_val (hex_digit n) = Some n.
Proof.
  intros Hn. unfold hex_digit, hex_val. destruct (N.ltb_spec n 10) as [Hlt|Hge].
  - destruct (N.leb_spec 48 (48 + n)) as [_|Hbad]; [|lia].
    destruct (N.leb_spec (48 + n) 57) as [_|Hbad]; [|lia].
    cbn [andb]. f_equal. lia.
  - destruct (N.leb_spec 48 (87 + n)) as [_|Hbad]; [|lia].
    destruct (N.leb_spec (87 + n) 57) as [Hbad|_]; [lia|].
    cbn [andb].
    destruct (N.leb_spec 97 (87 + n)) as [_|Hbad]; [|lia].
    destruct (N.leb_spec (87 + n) 102) as [_|Hbad]; [|lia].
    cbn [andb]. f_equal. lia.
Qed.

(* \u00XX of a control character reads back as that character *)
Lemma read_hex4_ctl (c : N) (rest : list N) :
  c < 32 ->
  read_hex4 (48 :: 48 :: hex_digit (c / 16) :: hex_digit (c mod 16) :: rest) = Some (c, rest).
Proof.
  intros Hc. unfold read_hex4. change (hex_val 48) with (Some 0). cbn [obind].
  assert (Hq : c / 16 < 16) by (apply N.div_lt_upper_bound; lia).
  assert (Hr : c mod 16 < 16) by (apply N.mod_lt; lia).
  rewrite (hex_val_digit _ Hq), (hex_val_digit _ Hr). cbn [obind].
  pose proof (N.div_mod c 16) as Hdm. f_equal. f_equal. lia.
Qed.

(* ------------------------------------------------------------------ J1: strings *)

(* every escape sequence is non-empty and does not begin with a quote *)
Lemma escape_shape (c : N) :
  exists x r, json_escape_char c = x :: r /\ (x =? 34) = false.
Proof.
  unfold json_escape_char.
  destruct (N.eqb_spec c 34) as [->|H34]; [eexists; eexists; split; reflexivity|].
  destruct (N.eqb_spec c 92) as [->|H92]; [eexists; eexists; split; reflexivity|].
  destruct (N.eqb_spec c 8) as [->|H8]; [eexists; eexists; split; reflexivity|].
  destruct (N.eqb_spec c 12) as [->|H12]; [eexists; eexists; split; reflexivity|].
  destruct (N.eqb_spec c 10) as [->|H10]; [eexists; eexists; split; reflexivity|].
  destruct (N.eqb_spec c 13) as [->|H13]; [eexists; eexists; split; reflexivity|].
  destruct (N.eqb_spec c 9) as [->|H9]; [eexists; eexists; split; reflexivity|].
  destruct (N.ltb_spec c 32) as [Hlt|Hge]; [eexists; eexists; split; reflexivity|].
  exists c, []. split; [reflexivity|]. apply N.eqb_neq. exact H34.
Qed.

(* the reader's step undoes the writer's step *)
Lemma read_one_escape (c : N) (rest : list N) :
  read_one (json_escape_char c ++ rest) = Some (c, rest).
Proof.
  unfold json_escape_char.
  destruct (N.eqb_spec c 34) as [->|H34]; [reflexivity|].
  destruct (N.eqb_spec c 92) as [->|H92]; [reflexivity|].
  destruct (N.eqb_spec c 8) as [->|H8]; [reflexivity|].
  destruct (N.eqb_spec c 12) as [->|H12]; [reflexivity|].
  destruct (N.eqb_spec c 10) as [->|H10]; [reflexivity|].
  destruct (N.eqb_spec c 13) as [->|H13]; [reflexivity|].
  destruct (N.eqb_spec c 9) as [->|H9]; [reflexivity|].
  destruct (N.ltb_spec c 32) as [Hlt|Hge].
  - cbv iota. cbn [List.app]. unfold read_one. change (92 =? 92) with true. change (117 =? 117) with true.
    cbv iota. unfold read_unicode. rewrite (read_hex4_ctl c rest Hlt). cbn [obind].
    assert (Hh : is_high_surrogate c = false).
    { unfold is_high_surrogate. destruct (N.leb_spec 0xD800 c) as [Hbad|_]; [lia|reflexivity]. }
    assert (Hl : is_low_surrogate c = false).
    { unfold is_low_surrogate. destruct (N.leb_spec 0xDC00 c) as [Hbad|_]; [lia|reflexivity]. }
    rewrite Hh, Hl. reflexivity.
  - cbv iota. cbn [List.app]. unfold read_one.
    destruct (N.eqb_spec c 92) as [Hbad|_]; [contradiction|].
    destruct (N.ltb_spec c 32) as [Hbad|_]; [lia|].
    destruct (N.eqb_spec c 34) as [Hbad|_]; [contradiction|].
    reflexivity.
Qed.

Lemma read_chars_step (f : nat) (c : N) (rest : list N) :
  read_chars (S f) (json_escape_char c ++ rest) = option_map (cons c) (read_chars f rest).
Proof.
  destruct (escape_shape c) as (x & r & E & Hx).
  pose proof (read_one_escape c rest) as R. rewrite E in *. cbn [List.app] in *.
  cbn [read_chars]. rewrite Hx, R. reflexivity.
Qed.

Lemma json_escape_cons (c : N) (s : list N) :
  json_escape (c :: s) = json_escape_char c ++ json_escape s.
Proof. reflexivity. Qed.

Lemma read_chars_escape (s : list N) :
  forall fuel : nat, (List.length (json_escape s) < fuel)%nat ->
                     read_chars fuel (json_escape s ++ [34]) = Some s.
Proof.
  induction s as [|c s IH]; intros fuel Hf.
  - destruct fuel as [|f]; [inversion Hf|]. reflexivity.
  - rewrite json_escape_cons in *. rewrite app_length in Hf.
    destruct (escape_shape c) as (x & r & E & _).
    assert (Hlen : (1 <= List.length (json_escape_char c))%nat) by (rewrite E; cbn [List.length]; lia).
    destruct fuel as [|f]; [inversion Hf|].
    rewrite <- app_assoc, read_chars_step, IH by lia. reflexivity.
Qed.

(* (J1) from_str(to_string(s)) = Ok(s).  No hypothesis on [s] is needed: the reader does not
   look at raw elements from U+0020 on other than the quote and the backslash. *)
Theorem json_read_write_string (s : list N) : json_read_string (json_write_string s) = Some s.
Proof.
  unfold json_write_string.
  change (json_read_string (34 :: json_escape s ++ [34]))
    with (read_chars (S (List.length (json_escape s ++ [34]))) (json_escape s ++ [34])).
  apply read_chars_escape. rewrite app_length. cbn [List.length]. lia.
Qed.

(* the form asked for: on strings of scalar values *)
Corollary json_read_write_string_scalar (s : list N) :
  Forall (fun c => scalar c = true) s -> json_read_string (json_write_string s) = Some s.
Proof. intros _. apply json_read_write_string. Qed.

(* ------------------------------------------------------------------ what the reader returns *)

Lemma hex_val_bound (c v : N) : hex_val c = Some v -> v < 16.
Proof.
  unfold hex_val.
  destruct ((48 <=? c) && (c <=? 57)) eqn:E1.
  { intros H. injection H as <-. rewrite andb_true_iff, !N.leb_le in E1. lia. }
  destruct ((97 <=? c) && (c <=? 102)) eqn:E2.
  { intros H. injection H as <-. rewrite andb_true_iff, !N.leb_le in E2. lia. }
  destruct ((65 <=? c) && (c <=? 70)) eqn:E3; [|discriminate].
  intros H. injection H as <-. rewrite andb_true_iff, !N.leb_le in E3. lia.
Qed.

Lemma read_hex4_sound (P : N -> Prop) (l : list N) (u : N) (r : list N) :
  read_hex4 l = Some (u, r) -> Forall P l -> u < 65536 /\ Forall P r.
Proof.
  unfold read_hex4. destruct l as [|a [|b [|c [|d r']]]]; try discriminate.
  destruct (hex_val a) as [va|] eqn:Ea; [|discriminate].
  destruct (hex_val b) as [vb|] eqn:Eb; [|discriminate].
  destruct (hex_val c) as [vc|] eqn:Ec; [|discriminate].
  destruct (hex_val d) as [vd|] eqn:Ed; [|discriminate].
  cbn [obind]. intros H HP. injection H as <- <-.
  pose proof (hex_val_bound _ _ Ea) as Ha. pose proof (hex_val_bound _ _ Eb) as Hb.
  pose proof (hex_val_bound _ _ Ec) as Hc. pose proof (hex_val_bound _ _ Ed) as Hd.
  split; [lia|].
  exact (Forall_inv_tail (Forall_inv_tail (Forall_inv_tail (Forall_inv_tail HP)))).
Qed.

Notation is_scalar := (fun c : N => scalar c = true).

Lemma read_unicode_sound (l : list N) (x : N) (rest : list N) :
  read_unicode l = Some (x, rest) -> Forall is_scalar l -> scalar x = true /\ Forall is_scalar rest.
Proof.
  unfold read_unicode. intros H HP.
  destruct (read_hex4 l) as [[u r2]|] eqn:E; [|discriminate]. cbn [obind] in H.
  destruct (read_hex4_sound _ _ _ _ E HP) as [Hu Hr2].
  destruct (is_high_surrogate u) eqn:Hh.
  - destruct r2 as [|a [|b r3]]; try discriminate.
    destruct ((a =? 92) && (b =? 117)); [|discriminate].
    destruct (read_hex4 r3) as [[lo r4]|] eqn:E2; [|discriminate]. cbn [obind] in H.
    destruct (is_low_surrogate lo) eqn:Hl; [|discriminate].
    injection H as <- <-.
    destruct (read_hex4_sound _ _ _ _ E2 (Forall_inv_tail (Forall_inv_tail Hr2))) as [Hlo Hr4].
    split; [|exact Hr4].
    unfold is_high_surrogate in Hh. unfold is_low_surrogate in Hl.
    rewrite andb_true_iff, !N.leb_le in Hh, Hl.
    unfold scalar. rewrite orb_true_iff, andb_true_iff, N.ltb_lt, !N.leb_le.
    unfold astral_of_pair. lia.
  - destruct (is_low_surrogate u) eqn:Hl; [discriminate|].
    injection H as <- <-. split; [|exact Hr2].
    unfold is_high_surrogate in Hh. unfold is_low_surrogate in Hl.
    rewrite andb_false_iff, !N.leb_gt in Hh, Hl.
    unfold scalar. rewrite orb_true_iff, andb_true_iff, N.ltb_lt, !N.leb_le. lia.
Qed.

Lemma read_escape_scalar (e x : N) : read_escape e = Some x -> scalar x = true.
Proof.
  unfold read_escape. intros H.
  repeat match type of H with
         | (if ?b then _ else _) = _ => destruct b; [injection H as <-; reflexivity|]
         end.
  discriminate.
Qed.

Lemma read_one_sound (l : list N) (x : N) (rest : list N) :
  read_one l = Some (x, rest) -> Forall is_scalar l -> scalar x = true /\ Forall is_scalar rest.
Proof.
  unfold read_one. destruct l as [|c r]; [discriminate|].
  destruct (c =? 92).
  - destruct r as [|e r']; [discriminate|].
    destruct (e =? 117).
    + intros H HP. exact (read_unicode_sound r' x rest H (Forall_inv_tail (Forall_inv_tail HP))).
    + destruct (read_escape e) as [y|] eqn:Ee; [|discriminate]. cbn [obind].
      intros H HP. injection H as <- <-. split.
      * exact (read_escape_scalar e y Ee).
      * exact (Forall_inv_tail (Forall_inv_tail HP)).
  - destruct (c <? 32); [discriminate|]. destruct (c =? 34); [discriminate|].
    intros H HP. injection H as <- <-. split; [exact (Forall_inv HP) | exact (Forall_inv_tail HP)].
Qed.

Lemma read_chars_sound (fuel : nat) :
  forall (l s : list N), read_chars fuel l = Some s -> Forall is_scalar l -> Forall is_scalar s.
Proof.
  induction fuel as [|f IH]; [discriminate|].
  intros l s. cbn [read_chars]. destruct l as [|c r]; [discriminate|].
  destruct (c =? 34).
  - destruct r as [|c' r']; [|discriminate]. intros H _. injection H as <-. constructor.
  - destruct (read_one (c :: r)) as [[x rest]|] eqn:E; [|discriminate].
    destruct (read_chars f rest) as [s'|] eqn:E2; [|discriminate]. cbn [option_map].
    intros H HP. injection H as <-. destruct (read_one_sound _ _ _ E HP) as [Hx Hrest].
    constructor; [exact Hx | exact (IH rest s' E2 Hrest)].
Qed.

(* the reader turns a text of scalar values into a string of scalar values: escapes denote
   scalar values only (a \u escape is never a surrogate, a pair is at most U+10FFFF) *)
Theorem json_read_string_scalar (t s : list N) :
  json_read_string t = Some s -> Forall is_scalar t -> Forall is_scalar s.
Proof.
  unfold json_read_string. destruct t as [|q body]; [discriminate|].
  destruct (q =? 34); [|discriminate].
  intros H HP. exact (read_chars_sound _ body s H (Forall_inv_tail HP)).
Qed.

(* ------------------------------------------------------------------ J3: the written text *)

Lemma escape_char_no_control (c : N) : Forall (fun x => (32 <=? x) = true) (json_escape_char c).
Proof.
  unfold json_escape_char.
  destruct (N.eqb_spec c 34) as [->|H34]; [repeat constructor|].
  destruct (N.eqb_spec c 92) as [->|H92]; [repeat constructor|].
  destruct (N.eqb_spec c 8) as [->|H8]; [repeat constructor|].
  destruct (N.eqb_spec c 12) as [->|H12]; [repeat constructor|].
  destruct (N.eqb_spec c 10) as [->|H10]; [repeat constructor|].
  destruct (N.eqb_spec c 13) as [->|H13]; [repeat constructor|].
  destruct (N.eqb_spec c 9) as [->|H9]; [repeat constructor|].
  destruct (N.ltb_spec c 32) as [Hlt|Hge].
  - pose proof (hex_digit_range (c / 16)) as H1. pose proof (hex_digit_range (c mod 16)) as H2.
    repeat constructor; apply N.leb_le; lia.
  - repeat constructor. apply N.leb_le. exact Hge.
Qed.

Lemma escape_no_control (s : list N) : Forall (fun x => (32 <=? x) = true) (json_escape s).
Proof.
  induction s as [|c s IH]; [constructor|].
  rewrite json_escape_cons. apply Forall_app. split; [apply escape_char_no_control | exact IH].
Qed.

(* a quote inside an escape sequence is the second element of backslash-quote *)
Lemma escape_char_quote (c : N) : In 34 (json_escape_char c) -> c = 34.
Proof.
  unfold json_escape_char.
  destruct (N.eqb_spec c 34) as [->|H34]; [reflexivity|].
  destruct (N.eqb_spec c 92) as [->|H92]; [cbn [In]; intros H; repeat destruct H as [H|H]; try discriminate H; contradiction|].
  destruct (N.eqb_spec c 8) as [->|H8]; [cbn [In]; intros H; repeat destruct H as [H|H]; try discriminate H; contradiction|].
  destruct (N.eqb_spec c 12) as [->|H12]; [cbn [In]; intros H; repeat destruct H as [H|H]; try discriminate H; contradiction|].
  destruct (N.eqb_spec c 10) as [->|H10]; [cbn [In]; intros H; repeat destruct H as [H|H]; try discriminate H; contradiction|].
  destruct (N.eqb_spec c 13) as [->|H13]; [cbn [In]; intros H; repeat destruct H as [H|H]; try discriminate H; contradiction|].
  destruct (N.eqb_spec c 9) as [->|H9]; [cbn [In]; intros H; repeat destruct H as [H|H]; try discriminate H; contradiction|].
  destruct (N.ltb_spec c 32) as [Hlt|Hge].
  - pose proof (hex_digit_range (c / 16)) as H1. pose proof (hex_digit_range (c mod 16)) as H2.
    cbn [In]. intros H. repeat destruct H as [H|H]; try discriminate H; try contradiction; lia.
  - cbn [In]. intros [H|H]; [exact H | contradiction].
Qed.

Lemma escape_quote (s : list N) : In 34 (json_escape s) -> In 34 s.
Proof.
  induction s as [|c s IH]; [intros H; exact H|].
  rewrite json_escape_cons. intros H. apply in_app_or in H. destruct H as [H|H].
  - left. exact (escape_char_quote c H).
  - right. exact (IH H).
Qed.

(* the scanner that skips the element after each backslash passes over a whole escape sequence *)
Lemma no_raw_quote_escape_char (c : N) (rest : list N) :
  no_raw_quote false (json_escape_char c ++ rest) = no_raw_quote false rest.
Proof.
  unfold json_escape_char.
  destruct (N.eqb_spec c 34) as [->|H34]; [reflexivity|].
  destruct (N.eqb_spec c 92) as [->|H92]; [reflexivity|].
  destruct (N.eqb_spec c 8) as [->|H8]; [reflexivity|].
  destruct (N.eqb_spec c 12) as [->|H12]; [reflexivity|].
  destruct (N.eqb_spec c 10) as [->|H10]; [reflexivity|].
  destruct (N.eqb_spec c 13) as [->|H13]; [reflexivity|].
  destruct (N.eqb_spec c 9) as [->|H9]; [reflexivity|].
  destruct (N.ltb_spec c 32) as [Hlt|Hge].
  - pose proof (hex_digit_range (c / 16)) as H1. pose proof (hex_digit_range (c mod 16)) as H2.
    cbv iota. cbn [List.app no_raw_quote]. change (92 =? 92) with true. change (48 =? 92) with false.
    change (48 =? 34) with false. cbv iota.
    destruct (N.eqb_spec (hex_digit (c / 16)) 92) as [Hbad|_]; [lia|].
    destruct (N.eqb_spec (hex_digit (c / 16)) 34) as [Hbad|_]; [lia|].
    destruct (N.eqb_spec (hex_digit (c mod 16)) 92) as [Hbad|_]; [lia|].
    destruct (N.eqb_spec (hex_digit (c mod 16)) 34) as [Hbad|_]; [lia|].
    reflexivity.
  - cbv iota. cbn [List.app no_raw_quote].
    destruct (N.eqb_spec c 92) as [Hbad|_]; [contradiction|].
    destruct (N.eqb_spec c 34) as [Hbad|_]; [contradiction|].
    reflexivity.
Qed.

Lemma no_raw_quote_escape (s : list N) : no_raw_quote false (json_escape s) = true.
Proof.
  induction s as [|c s IH]; [reflexivity|].
  rewrite json_escape_cons, no_raw_quote_escape_char. exact IH.
Qed.

Lemma interior_write_string (s : list N) : interior (json_write_string s) = json_escape s.
Proof. unfold interior, json_write_string. cbn [tl]. apply removelast_last. Qed.

(* (J3) between its first and its last element (the two delimiting quotes) the written text has
   no control character, and no quote other than the second element of a backslash-quote pair:
   the left-to-right scan that skips the element after each backslash meets no quote (and the
   text does not end on a dangling backslash), so the closing quote is the first unescaped one.
   A plain "no element is a quote" cannot hold for the interior, because the quote of the value
   is written as backslash + quote; it holds exactly when the value has no quote ([..._plain]). *)
Theorem json_write_string_interior (s : list N) :
  json_write_string s = 34 :: interior (json_write_string s) ++ [34] /\
  Forall (fun c => (32 <=? c) = true) (interior (json_write_string s)) /\
  no_raw_quote false (interior (json_write_string s)) = true.
Proof.
  rewrite interior_write_string. split; [reflexivity|]. split.
  - apply escape_no_control.
  - apply no_raw_quote_escape.
Qed.

Theorem json_write_string_interior_plain (s : list N) :
  ~ In 34 s ->
  Forall (fun c => (32 <=? c) && negb (c =? 34) = true) (interior (json_write_string s)).
Proof.
  intros Hq. rewrite interior_write_string.
  pose proof (escape_no_control s) as Hc. rewrite Forall_forall in *.
  intros x Hx. rewrite (Hc x Hx). cbn [andb].
  destruct (N.eqb_spec x 34) as [->|_]; [|reflexivity].
  exfalso. apply Hq. apply escape_quote. exact Hx.
Qed.

(* the whole text, delimiters included, is free of control characters *)
Theorem json_write_string_no_control (s : list N) :
  Forall (fun c => (32 <=? c) = true) (json_write_string s).
Proof.
  unfold json_write_string. constructor; [reflexivity|].
  apply Forall_app. split; [apply escape_no_control | repeat constructor].
Qed.

(* ------------------------------------------------------------------ J2: integers *)

Local Open Scope nat_scope.
(* Display never writes a leading zero *)
Lemma to_uint_no_leading_zero (p : positive) (r : Decimal.uint) : Pos.to_uint p <> D0 r.
Proof.
  intros E.
  pose proof (DecimalPos.Unsigned.to_of (Pos.to_uint p)) as H.
  rewrite DecimalPos.Unsigned.of_to in H. cbn [N.to_uint] in H.
  rewrite E, unorm_D0 in H.
  destruct r as [|r|r|r|r|r|r|r|r|r|r];
    [ exact (DecimalPos.Unsigned.to_uint_nonzero p E) | | | | | | | | | | ];
    match type of H with
    | D0 ?u = unorm ?u =>
        assert (Hn : u <> Nil) by discriminate;
        pose proof (nb_digits_unorm u Hn) as Hd; rewrite <- H in Hd;
        cbn [Decimal.nb_digits] in Hd; lia
    end.
Qed.
Local Close Scope nat_scope.

Lemma json_read_mag_codes (t : int_ty) (neg : bool) (u : Decimal.uint) :
  (forall r, u = D0 r -> r = Nil) ->
  json_read_mag t neg (codes_of_uint u) = parse_mag t neg (codes_of_uint u).
Proof.
  intros H0. destruct u as [|r|r|r|r|r|r|r|r|r|r]; try reflexivity.
  rewrite (H0 r eq_refl). reflexivity.
Qed.

(* (J2) from_str(to_string(z)) = Ok(z) for every z of the type *)
Theorem json_read_write_int (t : int_ty) (z : Z) :
  in_ty t z = true -> json_read_int t (json_write_int z) = Some z.
Proof.
  intros Hin. unfold json_write_int, show_int. destruct z as [|p|p]; cbn [Z.to_int].
  - cbn. rewrite Hin. reflexivity.
  - pose proof (DecimalPos.Unsigned.to_uint_nonnil p) as Hn.
    assert (H0 : forall r, Pos.to_uint p = D0 r -> r = Nil).
    { intros r E. exfalso. exact (to_uint_no_leading_zero p r E). }
    unfold json_read_int. destruct (codes_of_uint (Pos.to_uint p)) as [|c r] eqn:E.
    + exfalso. exact (codes_of_uint_nonnil _ Hn E).
    + destruct (codes_of_uint_head _ _ _ E) as [_ H2].
      rewrite H2, <- E, (json_read_mag_codes t false _ H0), (parse_mag_codes t false _ Hn).
      cbv zeta. rewrite of_uint_pos, Hin. reflexivity.
  - pose proof (DecimalPos.Unsigned.to_uint_nonnil p) as Hn.
    assert (H0 : forall r, Pos.to_uint p = D0 r -> r = Nil).
    { intros r E. exfalso. exact (to_uint_no_leading_zero p r E). }
    unfold json_read_int. change (45 =? 45) with true. cbv iota.
    assert (Hz : is_single_zero (codes_of_uint (Pos.to_uint p)) = false).
    { destruct (Pos.to_uint p) as [|r|r|r|r|r|r|r|r|r|r] eqn:E; [reflexivity| | | | | | | | | |];
        [ rewrite (H0 r eq_refl) in E; exfalso; exact (DecimalPos.Unsigned.to_uint_nonzero p E) | .. ];
        unfold is_single_zero; cbn [codes_of_uint]; destruct (codes_of_uint r); reflexivity. }
    rewrite Hz. cbn [andb].
    rewrite (json_read_mag_codes t true _ H0), (parse_mag_codes t true _ Hn).
    cbv zeta. rewrite of_uint_pos. change (- Z.pos p)%Z with (Z.neg p). rewrite Hin. reflexivity.
Qed.

(* the reader never yields a value outside the type *)
Theorem json_read_int_sound (t : int_ty) (s : list N) (z : Z) :
  json_read_int t s = Some z -> in_ty t z = true.
Proof.
  assert (M : forall neg ds, json_read_mag t neg ds = Some z -> in_ty t z = true).
  { intros neg ds. unfold json_read_mag. destruct ds as [|c r]; [discriminate|].
    destruct ((c =? 48) && match r with [] => false | _ :: _ => true end); [discriminate|].
    apply parse_mag_sound. }
  unfold json_read_int. destruct s as [|c ds]; [discriminate|].
  destruct (c =? 45); [destruct (is_single_zero ds && negb (signed t && (bits t =? 128)%Z)); [discriminate | apply M] | apply M].
Qed.

(* ------------------------------------------------------------------ J4: the format of Sem.Serde *)

Lemma json_unwrap_wrap (n : string) (x : list N) : json_unwrap n (json_wrap n x) = Some x.
Proof. reflexivity. Qed.

(* the hypothesis [de_inner (ser_inner v) = Some v] of the abstract round trip, for JSON *)
Theorem json_inner_roundtrip (fam : family) (v : value) :
  json_storable fam v = true -> json_de_inner fam (json_ser_inner v) = Some v.
Proof.
  unfold json_storable, json_de_inner, json_ser_inner.
  destruct fam as [|tn t|is64|tyname]; destruct v as [z|bits|s|l]; try discriminate.
  - intros _. rewrite json_read_write_string. reflexivity.
  - intros Hin. rewrite (json_read_write_int t z Hin). reflexivity.
Qed.

Section JsonSerde.
  Variable lib : fnlib.

  Notation json_deser d := (deserialize lib (list N) (json_de_inner (d_family d)) json_unwrap d).
  Notation json_ser d := (serialize (list N) json_ser_inner json_wrap d).

  (* C10 with the concrete JSON text: Lemmas.SerdeLemmas.roundtrip without its hypothesis on
     the inner value's own round trip *)
  Theorem json_roundtrip (d : decl) (raw v : value) :
    has_trait TrDeserialize (d_traits d) = true ->
    idempotent_on lib d -> comparable d (spec_sanitize lib d raw) = true ->
    construct lib d raw = OOk v ->
    json_storable (d_family d) v = true ->
    json_deser d (json_ser d v) = OOk v.
  Proof.
    intros Ht Hid Hc Hob Hst.
    apply (roundtrip lib (list N) (json_de_inner (d_family d)) json_ser_inner json_wrap json_unwrap
                     json_unwrap_wrap d raw v Ht Hid Hc Hob).
    apply json_inner_roundtrip. exact Hst.
  Qed.

  (* String newtypes: every obtainable value survives to_string / from_str *)
  Corollary json_roundtrip_string (d : decl) (raw : value) (s : list N) :
    d_family d = FStr ->
    has_trait TrDeserialize (d_traits d) = true ->
    idempotent_on lib d -> comparable d (spec_sanitize lib d raw) = true ->
    construct lib d raw = OOk (VS s) ->
    json_deser d (json_ser d (VS s)) = OOk (VS s).
  Proof.
    intros Hf Ht Hid Hc Hob. apply (json_roundtrip d raw (VS s) Ht Hid Hc Hob).
    rewrite Hf. reflexivity.
  Qed.

  (* integer newtypes: every obtainable value (a value of the inner type) survives *)
  Corollary json_roundtrip_int (d : decl) (tn : string) (t : int_ty) (raw : value) (z : Z) :
    d_family d = FInt tn t ->
    has_trait TrDeserialize (d_traits d) = true ->
    idempotent_on lib d -> comparable d (spec_sanitize lib d raw) = true ->
    construct lib d raw = OOk (VI z) -> in_ty t z = true ->
    json_deser d (json_ser d (VI z)) = OOk (VI z).
  Proof.
    intros Hf Ht Hid Hc Hob Hin. apply (json_roundtrip d raw (VI z) Ht Hid Hc Hob).
    rewrite Hf. exact Hin.
  Qed.

  (* the same, with the shape of the stored value derived from the type discipline instead of
     assumed: the constructor returns a value of the declaration's family *)
  Lemma construct_typed (d : decl) (raw v : value) :
    lib_typed lib -> typed (d_family d) raw = true -> construct lib d raw = OOk v ->
    typed (d_family d) v = true.
  Proof.
    intros Hlib Hty. unfold construct. destruct (has_validation d).
    - destruct (d_try_new lib d raw) as [w|e] eqn:E; [|discriminate].
      intros H. injection H as <-. unfold d_try_new in E. apply try_new_ok_iff in E.
      destruct E as [-> _]. exact (sanitize_typed lib Hlib d _ raw Hty).
    - intros H. injection H as <-. exact (sanitize_typed lib Hlib d _ raw Hty).
  Qed.

  Corollary json_roundtrip_string_typed (d : decl) (raw v : value) :
    lib_typed lib -> d_family d = FStr -> typed (d_family d) raw = true ->
    has_trait TrDeserialize (d_traits d) = true ->
    idempotent_on lib d -> comparable d (spec_sanitize lib d raw) = true ->
    construct lib d raw = OOk v ->
    json_deser d (json_ser d v) = OOk v.
  Proof.
    intros Hlib Hf Hty Ht Hid Hc Hob. apply (json_roundtrip d raw v Ht Hid Hc Hob).
    pose proof (construct_typed d raw v Hlib Hty Hob) as Hv. rewrite Hf in *.
    destruct v as [z|bits|s|l]; try discriminate Hv. reflexivity.
  Qed.

  Corollary json_roundtrip_int_typed (d : decl) (tn : string) (t : int_ty) (raw v : value) :
    lib_typed lib -> d_family d = FInt tn t -> typed (d_family d) raw = true ->
    has_trait TrDeserialize (d_traits d) = true ->
    idempotent_on lib d -> comparable d (spec_sanitize lib d raw) = true ->
    construct lib d raw = OOk v ->
    (forall z, v = VI z -> in_ty t z = true) ->
    json_deser d (json_ser d v) = OOk v.
  Proof.
    intros Hlib Hf Hty Ht Hid Hc Hob Hin. apply (json_roundtrip d raw v Ht Hid Hc Hob).
    pose proof (construct_typed d raw v Hlib Hty Hob) as Hv. rewrite Hf in *.
    destruct v as [z|bits|s|l]; try discriminate Hv. exact (Hin z eq_refl).
  Qed.

  (* the written document of a newtype is the inner value's own JSON text *)
  Theorem json_serialize_transparent (d : decl) (v : value) : json_ser d v = json_ser_inner v.
  Proof. reflexivity. Qed.
End JsonSerde.

(* ------------------------------------------------------------------ examples *)

Definition ty_u8 : int_ty := {| signed := false; bits := 8 |}.
Definition ty_i8 : int_ty := {| signed := true; bits := 8 |}.

(* a QUOTE b BACKSLASH c, U+000A, U+0001, U+00E9, U+1F600 *)
Example ex_write_string :
  json_write_string [97; 34; 98; 92; 99; 10; 1; 233; 128512]
  = [34; 97; 92; 34; 98; 92; 92; 99; 92; 110; 92; 117; 48; 48; 48; 49; 233; 128512; 34].
Proof. vm_compute. reflexivity. Qed.

Example ex_read_back :
  json_read_string [34; 97; 92; 34; 98; 92; 92; 99; 92; 110; 92; 117; 48; 48; 48; 49; 233; 128512; 34]
  = Some [97; 34; 98; 92; 99; 10; 1; 233; 128512].
Proof. vm_compute. reflexivity. Qed.

(* QUOTE U+00E9 U+1F600 BACKSLASH SLASH QUOTE *)
Example ex_read_solidus : json_read_string [34; 233; 128512; 92; 47; 34] = Some [233; 128512; 47].
Proof. vm_compute. reflexivity. Qed.

(* QUOTE \ud800 QUOTE: a lone surrogate *)
Example ex_read_lone_surrogate : json_read_string [34; 92; 117; 100; 56; 48; 48; 34] = None.
Proof. vm_compute. reflexivity. Qed.

(* QUOTE \uD83D\ude00 QUOTE: a surrogate pair (U+1F600), hex digits of either case *)
Example ex_read_surrogate_pair :
  json_read_string [34; 92; 117; 68; 56; 51; 68; 92; 117; 100; 101; 48; 48; 34] = Some [128512].
Proof. vm_compute. reflexivity. Qed.

(* a raw control character, text after the closing quote, no closing quote *)
Example ex_read_raw_control : json_read_string [34; 97; 10; 34] = None.
Proof. vm_compute. reflexivity. Qed.
Example ex_read_trailing : json_read_string [34; 97; 34; 98] = None.
Proof. vm_compute. reflexivity. Qed.
Example ex_read_unterminated : json_read_string [34; 97; 92; 34] = None.
Proof. vm_compute. reflexivity. Qed.

Example ex_int_leading_zeros : json_read_int ty_u8 [48; 48; 55] = None.
Proof. vm_compute. reflexivity. Qed.
Example ex_int_minus_zero : json_read_int ty_i8 [45; 48] = None.
Proof. vm_compute. reflexivity. Qed.
Example ex_int_overflow : json_read_int ty_u8 [50; 53; 54] = None.
Proof. vm_compute. reflexivity. Qed.
Example ex_int_max : json_read_int ty_u8 [50; 53; 53] = Some 255%Z.
Proof. vm_compute. reflexivity. Qed.
Example ex_int_plus : json_read_int ty_i8 [43; 53] = None.
Proof. vm_compute. reflexivity. Qed.
Example ex_int_fraction : json_read_int ty_i8 [53; 46; 48] = None.
Proof. vm_compute. reflexivity. Qed.
Example ex_int_write : json_write_int (-128) = [45; 49; 50; 56].
Proof. vm_compute. reflexivity. Qed.
