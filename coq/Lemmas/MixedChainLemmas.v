(* Mixed chains of a custom and a built-in string sanitizer whose composition IN THE DECLARED
   ORDER is idempotent although the custom function is arbitrary user code in general:
   (truncate to n chars, then trim) and (trim and a length-preserving, trim-commuting map). *)
From NV Require Import Base.Util Unicode.UStr Macro.Surface Macro.Ast Sem.Guard Sem.Value Sem.Eval
     Spec.GuardSpec Lemmas.UnicodeLemmas Lemmas.CanonLemmas.

Lemma drop_ws_length (s : list N) : (List.length (drop_ws s) <= List.length s)%nat.
Proof.
  induction s as [|c r IH]; cbn [drop_ws]; [apply le_n|].
  destruct (u_is_ws c); [cbn [List.length]; apply le_S; exact IH | apply le_n].
Qed.

Lemma u_trim_length (s : list N) : (List.length (u_trim s) <= List.length s)%nat.
Proof.
  unfold u_trim, u_trim_end, u_trim_start.
  rewrite rev_length.
  eapply Nat.le_trans; [apply drop_ws_length|].
  rewrite rev_length. apply drop_ws_length.
Qed.

(* str.chars().take(n).collect() followed by trim *)
Theorem take_then_trim_idem (n : nat) (s : list N) :
  u_trim (firstn n (u_trim (firstn n s))) = u_trim (firstn n s).
Proof.
  assert (Hlen : (List.length (u_trim (firstn n s)) <= n)%nat).
  { eapply Nat.le_trans; [apply u_trim_length|]. apply firstn_le_length. }
  rewrite (firstn_all2 (u_trim (firstn n s)) Hlen).
  apply u_trim_idem.
Qed.

Section Decl.
  Variable lib : fnlib.

  (* sanitize(with = |s| s.chars().take(n).collect(), trim) *)
  Theorem take_trim_chain_idempotent (d : decl) (f : fnref) (n : nat) :
    l_trim lib = u_trim ->
    d_sans d = [SWith f; STrim] ->
    (forall s, l_san lib (fn_id f) (VS s) = VS (firstn n s)) ->
    forall s, spec_sanitize lib d (spec_sanitize lib d (VS s)) = spec_sanitize lib d (VS s).
  Proof.
    intros Ht Hs Hf s. unfold spec_sanitize. rewrite Hs. cbn [fold_left].
    assert (E1 : sanitizer_fn lib d (SWith f) (VS s) = VS (firstn n s)) by (cbn; apply Hf).
    rewrite E1.
    assert (E2 : forall t, sanitizer_fn lib d STrim (VS t) = VS (u_trim t)) by (intro t; cbn; rewrite Ht; reflexivity).
    rewrite E2.
    assert (E3 : forall t, sanitizer_fn lib d (SWith f) (VS t) = VS (firstn n t)) by (intro t; cbn; apply Hf).
    rewrite E3, E2. f_equal. apply take_then_trim_idem.
  Qed.
End Decl.
