(* Declaration-level consequences of the generic guard lemmas: the theorems behind C01 / C07. *)
From NV Require Import Base.Util Base.IntTy Base.FloatBits Base.Float Base.Expr
     Macro.Surface Macro.Ast Sem.Guard Sem.Value Sem.Eval Spec.GuardSpec Lemmas.GuardLemmas.
Local Open Scope Z_scope.

Section Decl.
  Variable lib : fnlib.

  Lemma d_sanitize_spec (d : decl) (raw : value) :
    d_sanitize lib d raw = spec_sanitize lib d raw.
  Proof. unfold d_sanitize, sans_of, spec_sanitize. apply sanitize_map. Qed.

  Lemma comparable_check (d : decl) (x : value) (v : validator) :
    comparable d x = true -> In v (standard_validators d) ->
    forall is64 z b, d_family d = FFloat is64 -> x = VF z -> bound_of v = Some b ->
                     fcmp is64 z (bval d b) <> None.
  Proof.
    intros Hc Hin is64 z b Hf -> Hb. unfold comparable in Hc. rewrite Hf in Hc.
    rewrite forallb_forall in Hc. specialize (Hc v Hin). rewrite Hb in Hc.
    destruct (fcmp is64 z (bval d b)); [discriminate | discriminate Hc].
  Qed.

  Lemma std_validate_none_iff (d : decl) (vs : list validator) (x : value) :
    (forall v, In v vs -> check_of lib d v x = None <-> holds lib d v x = true) ->
    validate (map (check_of lib d) vs) x = None <-> forallb (fun v => holds lib d v x) vs = true.
  Proof.
    intros H. rewrite validate_none_iff, Forall_map, Forall_forall, forallb_forall.
    split; intros Hall v Hin; apply (H v Hin); apply Hall; exact Hin.
  Qed.

  Lemma d_validate_none_iff (d : decl) (x : value) :
    comparable d x = true ->
    d_validate lib d x = None <-> spec_valid lib d x = true.
  Proof.
    intros Hc. unfold d_validate, checks_of, spec_valid.
    destruct (d_validation d) as [[vs|w err]|] eqn:Hv.
    - apply std_validate_none_iff. intros v Hin. apply check_of_none_iff.
      apply comparable_check; [exact Hc|]. unfold standard_validators. rewrite Hv. exact Hin.
    - cbn [validate]. unfold custom_check. destruct (l_cust lib (fn_id w) x); split; congruence.
    - cbn. split; reflexivity.
  Qed.

  (* C01, Ok direction and value *)
  Theorem try_new_ok_iff_spec (d : decl) (raw v : value) :
    comparable d (spec_sanitize lib d raw) = true ->
    d_try_new lib d raw = Ok v <->
    v = spec_sanitize lib d raw /\ spec_valid lib d (spec_sanitize lib d raw) = true.
  Proof.
    intros Hc. unfold d_try_new. rewrite try_new_ok_iff.
    fold (d_sanitize lib d raw). fold (d_validate lib d (d_sanitize lib d raw)).
    rewrite d_sanitize_spec. rewrite (d_validate_none_iff d _ Hc). reflexivity.
  Qed.

  (* C01, Err direction: an error is returned exactly when some rule is violated, and then no
     value exists (the result type is a sum) *)
  Theorem try_new_err_iff_spec (d : decl) (raw : value) :
    comparable d (spec_sanitize lib d raw) = true ->
    (exists e, d_try_new lib d raw = Err e) <-> spec_valid lib d (spec_sanitize lib d raw) = false.
  Proof.
    intros Hc. destruct (d_try_new lib d raw) as [v|e] eqn:Ht.
    - apply (try_new_ok_iff_spec d raw v Hc) in Ht. destruct Ht as [_ Hs]. rewrite Hs.
      split; [intros [e He]; discriminate | discriminate].
    - split; [intros _ | intros _; eauto].
      destruct (spec_valid lib d (spec_sanitize lib d raw)) eqn:Hs; [|reflexivity].
      assert (H : d_try_new lib d raw = Ok (spec_sanitize lib d raw))
        by (apply (try_new_ok_iff_spec d raw _ Hc); split; [reflexivity | exact Hs]).
      congruence.
  Qed.

  Theorem new_is_sanitize (d : decl) (raw : value) : d_new lib d raw = spec_sanitize lib d raw.
  Proof. unfold d_new, new. apply d_sanitize_spec. Qed.

  Theorem construct_never_panics (d : decl) (raw : value) : construct lib d raw <> OPanic.
  Proof.
    unfold construct. destruct (has_validation d); [destruct (d_try_new lib d raw)|]; discriminate.
  Qed.

  (* the outcome depends only on the guard: name, visibility, generics, const_fn,
     new_unchecked, the derive list and the default play no role *)
  Theorem construct_flags_irrelevant (d d' : decl) (raw : value) :
    d_family d = d_family d' -> d_sans d = d_sans d' -> d_validation d = d_validation d' ->
    d_env d = d_env d' -> construct lib d raw = construct lib d' raw.
  Proof.
    intros Hf Hs Hv He.
    assert (Hb : forall b, bval d b = bval d' b)
      by (intros b; unfold bval; rewrite Hf, He; reflexivity).
    assert (Hsan : forall s x, sanitizer_fn lib d s x = sanitizer_fn lib d' s x) by reflexivity.
    assert (Hck : forall v x, check_of lib d v x = check_of lib d' v x)
      by (intros v x; unfold check_of; rewrite Hf; destruct (d_family d'), v, x; rewrite ?Hb; reflexivity).
    unfold construct, has_validation, d_try_new, d_new, try_new, new, sans_of, checks_of.
    rewrite Hs, Hv.
    change (map (sanitizer_fn lib d) (d_sans d')) with (map (sanitizer_fn lib d') (d_sans d')).
    destruct (d_validation d') as [[vs|w er]|]; try reflexivity.
    rewrite (validate_map_ext (check_of lib d) (check_of lib d')); [reflexivity | intros; apply Hck].
  Qed.

  (* C07: a rejection reports the variant of the first validator, in the order written, that
     the sanitized value violates *)
  Lemma validate_first_violated (d : decl) (vs : list validator) (x : value) :
    (forall v, In v vs -> check_of lib d v x = None <-> holds lib d v x = true) ->
    validate (map (check_of lib d) vs) x = option_map EVariant (first_violated lib d vs x).
  Proof.
    induction vs as [|v vs IH]; intros H; cbn [map validate first_violated]; [reflexivity|].
    pose proof (H v (or_introl eq_refl)) as Hv.
    destruct (holds lib d v x) eqn:Hh.
    - assert (Hc : check_of lib d v x = None) by (apply Hv; reflexivity). rewrite Hc.
      apply IH. intros v' Hin. apply H. right. exact Hin.
    - destruct (check_of lib d v x) as [e|] eqn:Hc.
      + cbn. f_equal. unfold check_of in Hc.
        destruct (d_family d), v, x; try discriminate; apply fail_some in Hc; destruct Hc as [-> _]; reflexivity.
      + exfalso. destruct Hv as [Hv _]. specialize (Hv eq_refl). discriminate.
  Qed.

  Theorem try_new_err_first_violated (d : decl) (vs : list validator) (raw : value) (e : verr) :
    d_validation d = Some (RVStandard vs) ->
    comparable d (spec_sanitize lib d raw) = true ->
    d_try_new lib d raw = Err e ->
    exists k, e = EVariant k /\ first_violated lib d vs (spec_sanitize lib d raw) = Some k.
  Proof.
    intros Hv Hc Ht. unfold d_try_new in Ht. apply try_new_err_iff in Ht.
    fold (d_sanitize lib d raw) in Ht. rewrite d_sanitize_spec in Ht.
    unfold checks_of in Ht. rewrite Hv in Ht.
    rewrite validate_first_violated in Ht.
    - destruct (first_violated lib d vs (spec_sanitize lib d raw)) as [k|]; [|discriminate].
      injection Ht as <-. eauto.
    - intros v Hin. apply check_of_none_iff. apply comparable_check; [exact Hc|].
      unfold standard_validators. rewrite Hv. exact Hin.
  Qed.

  Lemma first_violated_sound (d : decl) (vs : list validator) (x : value) (k : vkind) :
    first_violated lib d vs x = Some k ->
    exists pre v post, vs = pre ++ v :: post /\ vkind_of v = k /\ holds lib d v x = false /\
                       Forall (fun v' => holds lib d v' x = true) pre.
  Proof.
    induction vs as [|v vs IH]; cbn [first_violated]; [discriminate|].
    destruct (holds lib d v x) eqn:Hh.
    - intros H. destruct (IH H) as (pre & v' & post & -> & Hk & Hv' & Hpre).
      exists (v :: pre), v', post. repeat split; auto.
    - intros H. injection H as <-. exists [], v, vs. repeat split; auto.
  Qed.

  Theorem custom_error_unchanged (d : decl) (w : fnref) (err : string) (raw : value) (e : verr) :
    d_validation d = Some (RVCustom w err) ->
    d_try_new lib d raw = Err e ->
    exists code, l_cust lib (fn_id w) (spec_sanitize lib d raw) = Some code /\ e = ECustom code.
  Proof.
    intros Hv Ht. unfold d_try_new in Ht. apply try_new_err_iff in Ht.
    fold (d_sanitize lib d raw) in Ht. rewrite d_sanitize_spec in Ht.
    unfold checks_of in Ht. rewrite Hv in Ht. cbn [validate] in Ht. unfold custom_check in Ht.
    destruct (l_cust lib (fn_id w) (spec_sanitize lib d raw)) as [c|]; [|discriminate].
    injection Ht as <-. eauto.
  Qed.
End Decl.
