(* Inversion of the front end: what an accepted declaration is known to satisfy. *)
From NV Require Import Base.Util Base.IntTy Base.FloatBits Base.Float Base.Expr
     Macro.Surface Macro.Ast Macro.Parse Macro.Validate.
Local Open Scope string_scope.

Lemma vbind_accept {X Y} (m : verdict X) (f : X -> verdict Y) (y : Y) :
  vbind m f = Accept y -> exists x, m = Accept x /\ f x = Accept y.
Proof. destruct m as [x|c]; cbn; [eauto | discriminate]. Qed.

Lemma guardv_accept (b : bool) (c : string) (u : unit) : guardv b c = Accept u -> b = false.
Proof. unfold guardv. destruct b; [discriminate | reflexivity]. Qed.

Ltac inv_bind H :=
  repeat match type of H with
         | vbind ?m ?f = Accept ?y =>
             let x := fresh "x" in let H1 := fresh "H" in
             apply vbind_accept in H; destruct H as (x & H1 & H)
         end.

(* what macro_verdict = Accept tells about the pieces *)
Lemma macro_verdict_inv (ft : features) (sd : sdecl) (d : decl) :
  macro_verdict ft sd = Accept d ->
  exists fam p ts,
    parse_meta (sd_item sd) = Accept fam /\
    parse_attrs ft fam (sd_attr sd) = Accept p /\
    validate_guard fam p = Accept tt /\
    validate_traits fam p = Accept ts /\
    gen_checks fam p ts = Accept tt /\
    d_family d = fam /\ d_sans d = p_sans p /\ d_validation d = p_validation p /\
    d_traits d = ts /\ d_default d = p_default p /\ d_new_unchecked d = p_new_unchecked p /\
    d_env d = sd_env sd /\ d_generics d = it_generics (sd_item sd) /\ d_vis d = it_vis (sd_item sd).
Proof.
  unfold macro_verdict. intros H.
  apply vbind_accept in H. destruct H as (fam & Hm & H).
  apply vbind_accept in H. destruct H as (p & Hp & H).
  apply vbind_accept in H. destruct H as ([] & Hg & H).
  apply vbind_accept in H. destruct H as (ts & Ht & H).
  apply vbind_accept in H. destruct H as ([] & Hc & H).
  injection H as <-. exists fam, p, ts. cbn. repeat split; assumption.
Qed.

(* accepted declarations have at most one validator of each kind, hence distinct variants *)
Lemma accepted_no_dup_validators (ft : features) (sd : sdecl) (d : decl) (vs : list validator) :
  macro_verdict ft sd = Accept d -> d_validation d = Some (RVStandard vs) ->
  has_dup vkind_eqb (map vkind_of vs) = false.
Proof.
  intros H Hv. destruct (macro_verdict_inv _ _ _ H) as (fam & p & ts & _ & _ & Hg & _ & _ & _ & _ & Hpv & _).
  rewrite Hpv in Hv. unfold validate_guard in Hg.
  apply vbind_accept in Hg. destruct Hg as ([] & _ & Hg). rewrite Hv in Hg.
  unfold validate_validators in Hg. apply vbind_accept in Hg. destruct Hg as ([] & Hd & _).
  apply guardv_accept in Hd. exact Hd.
Qed.

Lemma vmap_accept_all {X Y} (f : X -> verdict Y) (l : list X) (ys : list Y) :
  vmap f l = Accept ys -> forall x, In x l -> exists y, f x = Accept y.
Proof.
  revert ys. induction l as [|a l IH]; intros ys H x Hin; [contradiction|].
  cbn in H. apply vbind_accept in H. destruct H as (b & Hb & H).
  apply vbind_accept in H. destruct H as (bs & Hbs & H).
  destruct Hin as [<-|Hin]; [eauto | eapply IH; eauto].
Qed.

Lemma has_trait_In (t : trait) (l : list trait) : has_trait t l = true -> exists t', In t' l /\ trait_eqb t t' = true.
Proof. unfold has_trait. rewrite existsb_exists. intros (x & Hin & He). eauto. Qed.

Lemma trait_eqb_eq (a b : trait) : trait_eqb a b = true -> a = b.
Proof. destruct a, b; cbn; congruence. Qed.

Lemma dedup_traits_has (t : trait) (l : list trait) : has_trait t (dedup_traits l) = has_trait t l.
Proof.
  induction l as [|a l IH]; [reflexivity|]. cbn [dedup_traits].
  destruct (has_trait a l) eqn:Ha.
  - rewrite IH. unfold has_trait at 2. cbn [existsb]. destruct (trait_eqb t a) eqn:E; [|reflexivity].
    apply trait_eqb_eq in E. subst. cbn. exact Ha.
  - unfold has_trait in *. cbn [existsb]. rewrite IH. reflexivity.
Qed.

(* From is refused when validators exist, for string / integer / float inner types *)
Lemma accepted_from_without_validation (ft : features) (sd : sdecl) (d : decl) :
  macro_verdict ft sd = Accept d ->
  (forall ty, d_family d <> FAny ty) ->
  has_trait TrFrom (d_traits d) = true -> has_validation d = false.
Proof.
  intros H Hfam Hfrom.
  destruct (macro_verdict_inv _ _ _ H) as (fam & p & ts & _ & _ & _ & Ht & _ & Hf & _ & Hpv & Hts & _).
  unfold validate_traits in Ht.
  apply vbind_accept in Ht. destruct Ht as ([] & _ & Ht).
  apply vbind_accept in Ht. destruct Ht as (us & Hall & Ht).
  apply vbind_accept in Ht. destruct Ht as ([] & _ & Ht). injection Ht as Ht.
  rewrite Hts, <- Ht, dedup_traits_has in Hfrom.
  apply has_trait_In in Hfrom. destruct Hfrom as (t' & Hin & He). apply trait_eqb_eq in He. subst t'.
  destruct (vmap_accept_all _ _ _ Hall _ Hin) as (y & Hy).
  unfold has_validation. rewrite Hpv. unfold trait_allowed, p_has_validation in Hy.
  rewrite <- Hf in Hy.
  destruct (d_family d) eqn:Hfd; try (apply guardv_accept in Hy; destruct (p_validation p); [discriminate|reflexivity]).
  exfalso. eapply Hfam. reflexivity.
Qed.

(* float Eq / Ord are admitted only together with `finite` *)
Lemma accepted_float_eq_ord_finite (ft : features) (sd : sdecl) (d : decl) (is64 : bool) :
  macro_verdict ft sd = Accept d -> d_family d = FFloat is64 ->
  has_trait TrEq (d_traits d) = true \/ has_trait TrOrd (d_traits d) = true ->
  exists vs, d_validation d = Some (RVStandard vs) /\ In VFinite vs.
Proof.
  intros H Hfam Hor.
  destruct (macro_verdict_inv _ _ _ H) as (fam & p & ts & _ & _ & _ & Ht & _ & Hf & _ & Hpv & Hts & _).
  unfold validate_traits in Ht.
  apply vbind_accept in Ht. destruct Ht as ([] & _ & Ht).
  apply vbind_accept in Ht. destruct Ht as (us & Hall & Ht).
  apply vbind_accept in Ht. destruct Ht as ([] & _ & Ht). injection Ht as Ht.
  rewrite Hts, <- Ht, !dedup_traits_has in Hor.
  assert (Hfin : has_finite p = true).
  { destruct Hor as [Hh|Hh]; apply has_trait_In in Hh; destruct Hh as (t' & Hin & He);
      apply trait_eqb_eq in He; subst t'; destruct (vmap_accept_all _ _ _ Hall _ Hin) as (y & Hy);
      unfold trait_allowed in Hy; rewrite <- Hf, Hfam in Hy; apply guardv_accept in Hy;
      rewrite negb_false_iff in Hy; exact Hy. }
  unfold has_finite in Hfin. rewrite Hpv.
  destruct (p_validation p) as [[vs|w e]|]; try discriminate.
  exists vs. split; [reflexivity|]. rewrite existsb_exists in Hfin. destruct Hfin as (v & Hin & Hk).
  destruct v; try discriminate. exact Hin.
Qed.
