(* Further shapes of the derived Arbitrary of float newtypes (Sem/ArbFloat.v):
     E1   validate(finite, greater = L)  (either order): valid for every input as soon as the delta is
          not absorbed at L and MAX + L does not overflow; the produced value is finite and > L
     E1'  converse witness: delta absorbed at L -> every input whose first draw is 0 panics
     E2 / E2'  the same for validate(finite, less = U)
     E3a  the open interval (L, U): delta absorbed at L -> every input whose first draw is 0 panics
     E3b  the open interval (L, U): the largest overshoot is not absorbed by one delta -> every input
          whose first draw is the all-ones integer panics.
   The witnesses E1' / E2' / E3a / E3b are stated for ANY validator list with the given boundaries
   that contains the validator that fails (so with or without `finite`, in any order). *)
From Coq Require Import ZArith Lia List Bool Reals Lra.
From NV Require Import Base.Util Base.IntTy Base.FloatBits Base.Float Base.Expr
     Macro.Surface Macro.Ast Sem.Guard Sem.Value Sem.Eval Sem.Bytes Sem.ArbFloat
     Lemmas.GuardLemmas Lemmas.FloatOrder Lemmas.ArbFloatLemmas Lemmas.ArbFloatValid Lemmas.ArbFloatExcl
     Lemmas.ArbFloatExcl2.
From Flocq Require Import Core IEEE754.BinarySingleNaN IEEE754.Binary IEEE754.Bits.
Local Open Scope Z_scope.

(* ====================================================================================== *)
(* 1. Generic layer on Flocq's binary_float (any format)                                  *)
(* ====================================================================================== *)

Section BinExcl3.
  Variable prec emax : Z.
  Context (prec_gt_0_ : Prec_gt_0 prec).
  Context (prec_lt_emax_ : Prec_lt_emax prec emax).
  Notation bf := (Binary.binary_float prec emax).
  Notation fexp := (SpecFloat.fexp prec emax).
  Notation rnd := (round radix2 fexp (round_mode mode_NE)).
  Notation B2R := (Binary.B2R prec emax).
  Notation is_finite := (Binary.is_finite prec emax).
  Notation Bplus := (Binary.Bplus prec emax prec_gt_0_ prec_lt_emax_).
  Notation Bminus := (Binary.Bminus prec emax prec_gt_0_ prec_lt_emax_).
  Notation Bplus_cases := (Bplus_cases prec emax prec_gt_0_ prec_lt_emax_).
  Notation Bminus_cases := (Bminus_cases prec emax prec_gt_0_ prec_lt_emax_).
  Notation rnd_B2R := (rnd_B2R prec emax).
  Notation rnd_le := (rnd_le prec emax prec_gt_0_).

  (* if m + y does not overflow, neither does y' + a for 0 <= a <= m and y' equal to y as a real *)
  Lemma Bplus_finite_between_eq nan (a m y y' : bf) :
    is_finite a = true -> is_finite m = true -> is_finite y = true -> is_finite y' = true ->
    (0 <= B2R a <= B2R m)%R -> B2R y' = B2R y ->
    is_finite (Bplus nan mode_NE m y) = true -> is_finite (Bplus nan mode_NE y' a) = true.
  Proof.
    intros Fa Fm Fy Fy' Hb E Fmy.
    destruct (Bplus_cases nan m y Fm Fy) as [[_ R1]|(I1 & _)]; [|rewrite I1 in Fmy; discriminate Fmy].
    destruct (Bplus_cases nan y' a Fy' Fa) as [[F2 _]|(_ & _ & O2)]; [exact F2|]. exfalso.
    pose proof (abs_B2R_lt_emax prec emax (Bplus nan mode_NE m y)) as Hm. rewrite R1 in Hm.
    pose proof (abs_B2R_lt_emax prec emax y) as Hy.
    apply Rabs_lt_inv in Hm. apply Rabs_lt_inv in Hy.
    assert (Hlt : (Rabs (rnd (B2R y' + B2R a)) < bpow radix2 emax)%R).
    { apply Rabs_lt. rewrite E.
      assert (H1 : (rnd (B2R y) <= rnd (B2R y + B2R a))%R) by (apply rnd_le; lra).
      assert (H2 : (rnd (B2R y + B2R a) <= rnd (B2R m + B2R y))%R) by (apply rnd_le; lra).
      rewrite rnd_B2R in H1. lra. }
    lra.
  Qed.

  (* if m + y does not overflow (m <= 0), neither does y' - a for 0 <= a <= -m *)
  Lemma Bminus_finite_between_eq nan (a m y y' : bf) :
    is_finite a = true -> is_finite m = true -> is_finite y = true -> is_finite y' = true ->
    (0 <= B2R a <= - B2R m)%R -> B2R y' = B2R y ->
    is_finite (Bplus nan mode_NE m y) = true -> is_finite (Bminus nan mode_NE y' a) = true.
  Proof.
    intros Fa Fm Fy Fy' Hb E Fmy.
    destruct (Bplus_cases nan m y Fm Fy) as [[_ R1]|(I1 & _)]; [|rewrite I1 in Fmy; discriminate Fmy].
    destruct (Bminus_cases nan y' a Fy' Fa) as [[F2 _]|(_ & _ & O2)]; [exact F2|]. exfalso.
    pose proof (abs_B2R_lt_emax prec emax (Bplus nan mode_NE m y)) as Hm. rewrite R1 in Hm.
    pose proof (abs_B2R_lt_emax prec emax y) as Hy.
    apply Rabs_lt_inv in Hm. apply Rabs_lt_inv in Hy.
    assert (Hlt : (Rabs (rnd (B2R y' - B2R a)) < bpow radix2 emax)%R).
    { apply Rabs_lt. rewrite E.
      assert (H1 : (rnd (B2R y - B2R a) <= rnd (B2R y))%R) by (apply rnd_le; lra).
      assert (H2 : (rnd (B2R m + B2R y) <= rnd (B2R y - B2R a))%R) by (apply rnd_le; lra).
      rewrite rnd_B2R in H1. lra. }
    lra.
  Qed.
End BinExcl3.

(* ====================================================================================== *)
(* 2. The two formats, on bit patterns                                                    *)
(* ====================================================================================== *)

Lemma delta_real_nonneg (is64 : bool) : (0 <= f_real is64 (correction_delta is64))%R.
Proof. unfold f_real. destruct is64; apply Bsign_false_nonneg; vm_compute; reflexivity. Qed.

(* x0 IEEE-equal to L, a >= 0 finite: x0 + a is finite as soon as MAX + L is *)
Lemma f_add_finite_below_max_eq (is64 : bool) (a L x0 : Z) :
  f_is_finite is64 a = true -> (0 <= f_real is64 a)%R -> f_is_finite is64 L = true ->
  fcmp is64 x0 L = Some Eq ->
  f_is_finite is64 (f_add is64 (max_finite is64) L) = true ->
  f_is_finite is64 (f_add is64 x0 a) = true.
Proof.
  unfold fcmp, f_is_finite, f_real, f_add, f_binop, max_finite. destruct is64; intros Fa Ra FL E FM.
  - rewrite b64_of_bits_of_b64 in *. unfold b64_plus in *.
    destruct (Bcompare_Eq_finite 53 1024 _ _ FL E) as [Fx R].
    refine (Bplus_finite_between_eq 53 1024 _ _ _ (b64_of_bits a) (b64_of_bits 9218868437227405311)
              (b64_of_bits L) (b64_of_bits x0) Fa _ FL Fx _ R FM).
    + vm_compute. reflexivity.
    + split; [exact Ra|]. rewrite max64_R.
      eapply Rle_trans; [apply Rle_abs | apply (abs_B2R_le_emax_minus_prec 53 1024 eq_refl)].
  - rewrite b32_of_bits_of_b32 in *. unfold b32_plus in *.
    destruct (Bcompare_Eq_finite 24 128 _ _ FL E) as [Fx R].
    refine (Bplus_finite_between_eq 24 128 _ _ _ (b32_of_bits a) (b32_of_bits 2139095039)
              (b32_of_bits L) (b32_of_bits x0) Fa _ FL Fx _ R FM).
    + vm_compute. reflexivity.
    + split; [exact Ra|]. rewrite max32_R.
      eapply Rle_trans; [apply Rle_abs | apply (abs_B2R_le_emax_minus_prec 24 128 eq_refl)].
Qed.

(* x0 IEEE-equal to U, a >= 0 finite: x0 - a is finite as soon as -MAX + U is *)
Lemma f_sub_finite_above_negmax_eq (is64 : bool) (a U x0 : Z) :
  f_is_finite is64 a = true -> (0 <= f_real is64 a)%R -> f_is_finite is64 U = true ->
  fcmp is64 x0 U = Some Eq ->
  f_is_finite is64 (f_add is64 (fb_neg is64 (max_finite is64)) U) = true ->
  f_is_finite is64 (f_sub is64 x0 a) = true.
Proof.
  rewrite fb_neg_max.
  unfold fcmp, f_is_finite, f_real, f_add, f_sub, f_binop. destruct is64; intros Fa Ra FU E FM.
  - rewrite b64_of_bits_of_b64 in *. unfold b64_plus, b64_minus in *.
    destruct (Bcompare_Eq_finite 53 1024 _ _ FU E) as [Fx R].
    refine (Bminus_finite_between_eq 53 1024 _ _ _ (b64_of_bits a) (b64_of_bits 18442240474082181119)
              (b64_of_bits U) (b64_of_bits x0) Fa _ FU Fx _ R FM).
    + vm_compute. reflexivity.
    + split; [exact Ra|]. rewrite negmax64_R.
      pose proof (abs_B2R_le_emax_minus_prec 53 1024 eq_refl (b64_of_bits a)) as H.
      apply Rabs_le_inv in H. lra.
  - rewrite b32_of_bits_of_b32 in *. unfold b32_plus, b32_minus in *.
    destruct (Bcompare_Eq_finite 24 128 _ _ FU E) as [Fx R].
    refine (Bminus_finite_between_eq 24 128 _ _ _ (b32_of_bits a) (b32_of_bits 4286578687)
              (b32_of_bits U) (b32_of_bits x0) Fa _ FU Fx _ R FM).
    + vm_compute. reflexivity.
    + split; [exact Ra|]. rewrite negmax32_R.
      pose proof (abs_B2R_le_emax_minus_prec 24 128 eq_refl (b32_of_bits a)) as H.
      apply Rabs_le_inv in H. lra.
Qed.

(* ====================================================================================== *)
(* 3. E1 / E1': `finite` next to one exclusive lower bound                                *)
(* ====================================================================================== *)

(* x0 = |b| + L with b finite: x0 >= L and x0 is finite (MAX + L does not overflow).  If x0 > L it
   is kept; otherwise x0 is IEEE-equal to L, x0 + delta compares with L as L + delta does, and is
   finite because L <= fl(L + delta) <= fl(MAX + L) *)
Theorem arb_float_inner_finite_lower_excl (is64 : bool) (d : decl) (vs : list validator) (bs : bytes) (L : Z) :
  In VFinite vs ->
  fboundaries d vs None None = (Some {| fb_val := L; fb_incl := false |}, None) ->
  f_is_finite is64 L = true ->
  f_gt is64 (f_add is64 L (correction_delta is64)) L = true ->
  f_is_finite is64 (f_add is64 (max_finite is64) L) = true ->
  exists x, arb_float_inner is64 d vs bs = Some x /\ f_is_finite is64 x = true /\ f_gt is64 x L = true.
Proof.
  intros Hin Hb HL Hd HM. unfold arb_float_inner. rewrite Hb, (base_kind_of_finite vs Hin).
  destruct (base_value_model_fuel is64 BKFinite bs) as (b & r & H & Hc). cbn [base_cond] in Hc.
  rewrite H. cbn [obind fst fb_val]. unfold adjust_lower. cbn [fb_incl fb_val].
  eexists. split; [reflexivity|].
  destruct (f_abs_spec is64 b) as (A1 & A2 & A3 & A4).
  pose proof (finite_not_nan is64 b Hc) as Hn.
  assert (Hge : f_ge is64 (f_add is64 (fb_abs is64 b) L) L = true).
  { apply f_add_ge_right; [exact HL | rewrite A1; exact Hn | exact (A3 Hn)]. }
  assert (Hfin : f_is_finite is64 (f_add is64 (fb_abs is64 b) L) = true).
  { apply f_add_finite_below_max; [rewrite A2; exact Hc | exact (A4 Hc) | exact HL | exact HM]. }
  set (x0 := f_add is64 (fb_abs is64 b) L) in *.
  unfold f_ge in Hge. unfold f_le.
  destruct (fcmp is64 x0 L) as [[| |]|] eqn:E; try discriminate Hge.
  - split.
    + exact (f_add_finite_below_max_eq is64 _ L x0 (delta_finite is64) (delta_real_nonneg is64) HL E HM).
    + unfold f_gt.
      rewrite (f_add_eq_congr is64 x0 L (correction_delta is64) L HL (delta_finite is64) E). exact Hd.
  - split; [exact Hfin|]. unfold f_gt. rewrite E. reflexivity.
Qed.

(* E1, both orders *)
Theorem arb_float_finite_lower_excl_ok (lib : fnlib) (d : decl) (is64 : bool) (vs : list validator)
    (bnd : bound) (bs : bytes) :
  d_family d = FFloat is64 -> d_sans d = [] -> d_validation d = Some (RVStandard vs) ->
  vs = [VFinite; VGreater bnd] \/ vs = [VGreater bnd; VFinite] ->
  f_is_finite is64 (bval d bnd) = true ->
  f_gt is64 (f_add is64 (bval d bnd) (correction_delta is64)) (bval d bnd) = true ->
  f_is_finite is64 (f_add is64 (max_finite is64) (bval d bnd)) = true ->
  exists x, arb_float lib d bs = OOk (VF x) /\
            f_is_finite is64 x = true /\ f_gt is64 x (bval d bnd) = true.
Proof.
  intros Hf Hs Hv Hvs HL Hd HM.
  assert (Hin : In VFinite vs) by (destruct Hvs as [-> | ->]; cbn; tauto).
  assert (Hb : fboundaries d vs None None = (Some {| fb_val := bval d bnd; fb_incl := false |}, None))
    by (destruct Hvs as [-> | ->]; reflexivity).
  destruct (arb_float_inner_finite_lower_excl is64 d vs bs _ Hin Hb HL Hd HM) as (x & Hi & H1 & H2).
  exists x. split; [|split; assumption].
  apply (arb_float_ok_of_checks lib d is64 vs bs x Hf Hs Hv Hi).
  assert (C1 : check_of lib d VFinite (VF x) = None) by exact (check_finite_ok lib d is64 Hf x H1).
  assert (C2 : check_of lib d (VGreater bnd) (VF x) = None).
  { apply (check_gt_ok lib d is64 Hf). rewrite <- f_gt_lt_swap. exact H2. }
  intros v Hv'. destruct Hvs as [-> | ->]; destruct Hv' as [<-|[<-|[]]]; assumption.
Qed.

(* E1': the delta is absorbed at the bound.  Whatever the base kind (so with or without `finite`)
   the base value of an input whose first draw is the integer 0 is +0.0; x0 = +0.0 + L is
   IEEE-equal to L and so is x0 + delta: `greater` rejects it *)
Theorem arb_float_lower_excl_absorbed_panic_in (lib : fnlib) (d : decl) (is64 : bool) (vs : list validator)
    (bnd : bound) (bs : bytes) :
  d_family d = FFloat is64 -> d_sans d = [] -> d_validation d = Some (RVStandard vs) ->
  In (VGreater bnd) vs ->
  fboundaries d vs None None = (Some {| fb_val := bval d bnd; fb_incl := false |}, None) ->
  f_is_finite is64 (bval d bnd) = true ->
  f_gt is64 (f_add is64 (bval d bnd) (correction_delta is64)) (bval d bnd) = false ->
  fst (arb_uint (fsize is64) bs) = 0 ->
  arb_float lib d bs = OPanic.
Proof.
  intros Hf Hs Hv Hin Hb HL Hd H0.
  destruct (base_value_zero is64 (base_kind_of vs) bs H0) as [r Hbv].
  destruct (f_poszero_spec is64) as [Z1 Z2].
  pose proof (f_add_zero_eq is64 0 (bval d bnd) Z1 Z2 HL) as E.
  set (x0 := f_add is64 0 (bval d bnd)) in *.
  assert (Hle0 : f_le is64 x0 (bval d bnd) = true) by (unfold f_le; rewrite E; reflexivity).
  assert (Hi : arb_float_inner is64 d vs bs = Some (f_add is64 x0 (correction_delta is64))).
  { unfold arb_float_inner. rewrite Hb, Hbv. cbn [obind fst fb_val]. unfold adjust_lower. cbn [fb_incl fb_val].
    rewrite (fb_abs_zero is64). fold x0. rewrite Hle0. reflexivity. }
  apply (arb_float_panic_of_check_in lib d is64 Hf vs (VGreater bnd) bs _ Hs Hv Hi Hin).
  unfold check_of. rewrite Hf.
  assert (Hle : f_le is64 (f_add is64 x0 (correction_delta is64)) (bval d bnd) = true).
  { unfold f_le.
    rewrite (f_add_eq_congr is64 x0 (bval d bnd) (correction_delta is64) (bval d bnd) HL (delta_finite is64) E).
    pose proof (f_add_not_nan is64 (bval d bnd) (correction_delta is64) HL (delta_finite is64)) as Hn.
    destruct (fcmp_total is64 _ (bval d bnd) Hn (finite_not_nan is64 _ HL)) as [c Hc].
    unfold f_gt in Hd. rewrite Hc in Hd. rewrite Hc. destruct c; [reflexivity | reflexivity | discriminate Hd]. }
  rewrite Hle. discriminate.
Qed.

Corollary arb_float_finite_lower_excl_absorbed_panic_nil (lib : fnlib) (d : decl) (is64 : bool)
    (vs : list validator) (bnd : bound) :
  d_family d = FFloat is64 -> d_sans d = [] -> d_validation d = Some (RVStandard vs) ->
  vs = [VFinite; VGreater bnd] \/ vs = [VGreater bnd; VFinite] ->
  f_is_finite is64 (bval d bnd) = true ->
  f_gt is64 (f_add is64 (bval d bnd) (correction_delta is64)) (bval d bnd) = false ->
  arb_float lib d [] = OPanic /\ arb_float lib d (repeat 0 (fsize is64)) = OPanic.
Proof.
  intros Hf Hs Hv Hvs HL Hd.
  assert (Hin : In (VGreater bnd) vs) by (destruct Hvs as [-> | ->]; cbn; tauto).
  assert (Hb : fboundaries d vs None None = (Some {| fb_val := bval d bnd; fb_incl := false |}, None))
    by (destruct Hvs as [-> | ->]; reflexivity).
  split.
  - exact (arb_float_lower_excl_absorbed_panic_in lib d is64 vs bnd [] Hf Hs Hv Hin Hb HL Hd (arb_uint_nil_fst is64)).
  - exact (arb_float_lower_excl_absorbed_panic_in lib d is64 vs bnd _ Hf Hs Hv Hin Hb HL Hd (arb_uint_zeros is64)).
Qed.

(* the exact characterisation when MAX + L does not overflow *)
Corollary arb_float_finite_lower_excl_iff (lib : fnlib) (d : decl) (is64 : bool) (vs : list validator) (bnd : bound) :
  d_family d = FFloat is64 -> d_sans d = [] -> d_validation d = Some (RVStandard vs) ->
  vs = [VFinite; VGreater bnd] \/ vs = [VGreater bnd; VFinite] ->
  f_is_finite is64 (bval d bnd) = true ->
  f_is_finite is64 (f_add is64 (max_finite is64) (bval d bnd)) = true ->
  ((forall bs, exists x, arb_float lib d bs = OOk (VF x) /\
                         f_is_finite is64 x = true /\ f_gt is64 x (bval d bnd) = true) <->
   f_gt is64 (f_add is64 (bval d bnd) (correction_delta is64)) (bval d bnd) = true).
Proof.
  intros Hf Hs Hv Hvs HL HM. split.
  - intros Hall.
    destruct (f_gt is64 (f_add is64 (bval d bnd) (correction_delta is64)) (bval d bnd)) eqn:E; [reflexivity|].
    destruct (Hall []) as (x & Hx & _).
    rewrite (proj1 (arb_float_finite_lower_excl_absorbed_panic_nil lib d is64 vs bnd Hf Hs Hv Hvs HL E)) in Hx.
    discriminate Hx.
  - intros Hd bs. exact (arb_float_finite_lower_excl_ok lib d is64 vs bnd bs Hf Hs Hv Hvs HL Hd HM).
Qed.

(* ====================================================================================== *)
(* 4. E2 / E2': `finite` next to one exclusive upper bound                                *)
(* ====================================================================================== *)

Theorem arb_float_inner_finite_upper_excl (is64 : bool) (d : decl) (vs : list validator) (bs : bytes) (U : Z) :
  In VFinite vs ->
  fboundaries d vs None None = (None, Some {| fb_val := U; fb_incl := false |}) ->
  f_is_finite is64 U = true ->
  f_lt is64 (f_sub is64 U (correction_delta is64)) U = true ->
  f_is_finite is64 (f_add is64 (fb_neg is64 (max_finite is64)) U) = true ->
  exists x, arb_float_inner is64 d vs bs = Some x /\ f_is_finite is64 x = true /\ f_lt is64 x U = true.
Proof.
  intros Hin Hb HU Hd HM. unfold arb_float_inner. rewrite Hb, (base_kind_of_finite vs Hin).
  destruct (base_value_model_fuel is64 BKFinite bs) as (b & r & H & Hc). cbn [base_cond] in Hc.
  rewrite H. cbn [obind fst fb_val]. unfold adjust_upper. cbn [fb_incl fb_val].
  eexists. split; [reflexivity|].
  destruct (f_negabs_spec is64 b) as (A1 & A2). destruct (f_negabs_finite is64 b) as (B1 & B2).
  pose proof (finite_not_nan is64 b Hc) as Hn.
  assert (Hle : f_le is64 (f_add is64 (fb_neg is64 (fb_abs is64 b)) U) U = true).
  { apply f_add_le_right; [exact HU | rewrite A1; exact Hn | exact (A2 Hn)]. }
  assert (Hfin : f_is_finite is64 (f_add is64 (fb_neg is64 (fb_abs is64 b)) U) = true).
  { apply f_add_finite_above_negmax; [rewrite B1; exact Hc | exact (B2 Hc) | exact HU | exact HM]. }
  set (x0 := f_add is64 (fb_neg is64 (fb_abs is64 b)) U) in *.
  unfold f_le in Hle. unfold f_ge.
  destruct (fcmp is64 x0 U) as [[| |]|] eqn:E; try discriminate Hle.
  - split.
    + exact (f_sub_finite_above_negmax_eq is64 _ U x0 (delta_finite is64) (delta_real_nonneg is64) HU E HM).
    + unfold f_lt.
      rewrite (f_sub_eq_congr is64 x0 U (correction_delta is64) U HU (delta_finite is64) E). exact Hd.
  - split; [exact Hfin|]. unfold f_lt. rewrite E. reflexivity.
Qed.

(* E2, both orders *)
Theorem arb_float_finite_upper_excl_ok (lib : fnlib) (d : decl) (is64 : bool) (vs : list validator)
    (bnd : bound) (bs : bytes) :
  d_family d = FFloat is64 -> d_sans d = [] -> d_validation d = Some (RVStandard vs) ->
  vs = [VFinite; VLess bnd] \/ vs = [VLess bnd; VFinite] ->
  f_is_finite is64 (bval d bnd) = true ->
  f_lt is64 (f_sub is64 (bval d bnd) (correction_delta is64)) (bval d bnd) = true ->
  f_is_finite is64 (f_add is64 (fb_neg is64 (max_finite is64)) (bval d bnd)) = true ->
  exists x, arb_float lib d bs = OOk (VF x) /\
            f_is_finite is64 x = true /\ f_lt is64 x (bval d bnd) = true.
Proof.
  intros Hf Hs Hv Hvs HU Hd HM.
  assert (Hin : In VFinite vs) by (destruct Hvs as [-> | ->]; cbn; tauto).
  assert (Hb : fboundaries d vs None None = (None, Some {| fb_val := bval d bnd; fb_incl := false |}))
    by (destruct Hvs as [-> | ->]; reflexivity).
  destruct (arb_float_inner_finite_upper_excl is64 d vs bs _ Hin Hb HU Hd HM) as (x & Hi & H1 & H2).
  exists x. split; [|split; assumption].
  apply (arb_float_ok_of_checks lib d is64 vs bs x Hf Hs Hv Hi).
  assert (C1 : check_of lib d VFinite (VF x) = None) by exact (check_finite_ok lib d is64 Hf x H1).
  assert (C2 : check_of lib d (VLess bnd) (VF x) = None) by exact (check_lt_ok lib d is64 Hf bnd x H2).
  intros v Hv'. destruct Hvs as [-> | ->]; destruct Hv' as [<-|[<-|[]]]; assumption.
Qed.

(* E2': base value +0.0, x0 = -0.0 + U IEEE-equal to U, x0 - delta IEEE-equal to U or above *)
Theorem arb_float_upper_excl_absorbed_panic_in (lib : fnlib) (d : decl) (is64 : bool) (vs : list validator)
    (bnd : bound) (bs : bytes) :
  d_family d = FFloat is64 -> d_sans d = [] -> d_validation d = Some (RVStandard vs) ->
  In (VLess bnd) vs ->
  fboundaries d vs None None = (None, Some {| fb_val := bval d bnd; fb_incl := false |}) ->
  f_is_finite is64 (bval d bnd) = true ->
  f_lt is64 (f_sub is64 (bval d bnd) (correction_delta is64)) (bval d bnd) = false ->
  fst (arb_uint (fsize is64) bs) = 0 ->
  arb_float lib d bs = OPanic.
Proof.
  intros Hf Hs Hv Hin Hb HU Hd H0.
  destruct (base_value_zero is64 (base_kind_of vs) bs H0) as [r Hbv].
  destruct (f_negzero_spec is64) as [Z1 Z2].
  pose proof (f_add_zero_eq is64 _ (bval d bnd) Z1 Z2 HU) as E.
  set (x0 := f_add is64 (fb_neg is64 (fb_abs is64 0)) (bval d bnd)) in *.
  assert (Hge0 : f_ge is64 x0 (bval d bnd) = true) by (unfold f_ge; rewrite E; reflexivity).
  assert (Hi : arb_float_inner is64 d vs bs = Some (f_sub is64 x0 (correction_delta is64))).
  { unfold arb_float_inner. rewrite Hb, Hbv. cbn [obind fst fb_val]. unfold adjust_upper. cbn [fb_incl fb_val].
    fold x0. rewrite Hge0. reflexivity. }
  apply (arb_float_panic_of_check_in lib d is64 Hf vs (VLess bnd) bs _ Hs Hv Hi Hin).
  unfold check_of. rewrite Hf.
  assert (Hge : f_ge is64 (f_sub is64 x0 (correction_delta is64)) (bval d bnd) = true).
  { unfold f_ge.
    rewrite (f_sub_eq_congr is64 x0 (bval d bnd) (correction_delta is64) (bval d bnd) HU (delta_finite is64) E).
    pose proof (f_sub_not_nan is64 (bval d bnd) (correction_delta is64) HU (delta_finite is64)) as Hn.
    destruct (fcmp_total is64 _ (bval d bnd) Hn (finite_not_nan is64 _ HU)) as [c Hc].
    unfold f_lt in Hd. rewrite Hc in Hd. rewrite Hc. destruct c; [reflexivity | discriminate Hd | reflexivity]. }
  rewrite Hge. discriminate.
Qed.

Corollary arb_float_finite_upper_excl_absorbed_panic_nil (lib : fnlib) (d : decl) (is64 : bool)
    (vs : list validator) (bnd : bound) :
  d_family d = FFloat is64 -> d_sans d = [] -> d_validation d = Some (RVStandard vs) ->
  vs = [VFinite; VLess bnd] \/ vs = [VLess bnd; VFinite] ->
  f_is_finite is64 (bval d bnd) = true ->
  f_lt is64 (f_sub is64 (bval d bnd) (correction_delta is64)) (bval d bnd) = false ->
  arb_float lib d [] = OPanic /\ arb_float lib d (repeat 0 (fsize is64)) = OPanic.
Proof.
  intros Hf Hs Hv Hvs HU Hd.
  assert (Hin : In (VLess bnd) vs) by (destruct Hvs as [-> | ->]; cbn; tauto).
  assert (Hb : fboundaries d vs None None = (None, Some {| fb_val := bval d bnd; fb_incl := false |}))
    by (destruct Hvs as [-> | ->]; reflexivity).
  split.
  - exact (arb_float_upper_excl_absorbed_panic_in lib d is64 vs bnd [] Hf Hs Hv Hin Hb HU Hd (arb_uint_nil_fst is64)).
  - exact (arb_float_upper_excl_absorbed_panic_in lib d is64 vs bnd _ Hf Hs Hv Hin Hb HU Hd (arb_uint_zeros is64)).
Qed.

Corollary arb_float_finite_upper_excl_iff (lib : fnlib) (d : decl) (is64 : bool) (vs : list validator) (bnd : bound) :
  d_family d = FFloat is64 -> d_sans d = [] -> d_validation d = Some (RVStandard vs) ->
  vs = [VFinite; VLess bnd] \/ vs = [VLess bnd; VFinite] ->
  f_is_finite is64 (bval d bnd) = true ->
  f_is_finite is64 (f_add is64 (fb_neg is64 (max_finite is64)) (bval d bnd)) = true ->
  ((forall bs, exists x, arb_float lib d bs = OOk (VF x) /\
                         f_is_finite is64 x = true /\ f_lt is64 x (bval d bnd) = true) <->
   f_lt is64 (f_sub is64 (bval d bnd) (correction_delta is64)) (bval d bnd) = true).
Proof.
  intros Hf Hs Hv Hvs HU HM. split.
  - intros Hall.
    destruct (f_lt is64 (f_sub is64 (bval d bnd) (correction_delta is64)) (bval d bnd)) eqn:E; [reflexivity|].
    destruct (Hall []) as (x & Hx & _).
    rewrite (proj1 (arb_float_finite_upper_excl_absorbed_panic_nil lib d is64 vs bnd Hf Hs Hv Hvs HU E)) in Hx.
    discriminate Hx.
  - intros Hd bs. exact (arb_float_finite_upper_excl_ok lib d is64 vs bnd bs Hf Hs Hv Hvs HU Hd HM).
Qed.

(* ====================================================================================== *)
(* 5. E3: panic witnesses for the open interval (L, U)                                    *)
(* ====================================================================================== *)

(* E3a: L < U and the delta is absorbed at L: every input whose first draw is the integer 0
   (u = +0.0, scaled value IEEE-equal to L, corrected value IEEE-equal to L + delta <= L < U, so
   the upper correction does not fire) is rejected by `greater` *)
Theorem arb_float_excl_excl_absorbed_panic (lib : fnlib) (d : decl) (is64 : bool) (vs : list validator)
    (bl : bound) (U : Z) (bs : bytes) :
  d_family d = FFloat is64 -> d_sans d = [] -> d_validation d = Some (RVStandard vs) ->
  In (VGreater bl) vs ->
  fboundaries d vs None None =
    (Some {| fb_val := bval d bl; fb_incl := false |}, Some {| fb_val := U; fb_incl := false |}) ->
  f_is_finite is64 (f_sub is64 U (bval d bl)) = true ->
  f_lt is64 (bval d bl) U = true ->
  f_gt is64 (f_add is64 (bval d bl) (correction_delta is64)) (bval d bl) = false ->
  fst (arb_uint (fsize is64) bs) = 0 ->
  arb_float lib d bs = OPanic.
Proof.
  intros Hf Hs Hv Hin Hb Hrange HLU Hd Hdraw.
  set (L := bval d bl) in *.
  destruct (f_sub_finite_inv is64 U L Hrange) as [HU HL].
  pose proof (delta_finite is64) as Fd.
  pose proof (finite_not_nan is64 U HU) as NU. pose proof (finite_not_nan is64 L HL) as NL.
  destruct (f_abs_spec is64 (f_sub is64 U L)) as (_ & A2 & _ & A4).
  assert (Fr : f_is_finite is64 (fb_abs is64 (f_sub is64 U L)) = true) by (rewrite A2; exact Hrange).
  destruct (f_mul_zero_l is64 _ Fr (A4 Hrange)) as [Fp Rp].
  pose proof (f_add_zero_r_eq is64 _ L Fp Rp HL) as Eq0.
  change (f_add is64 L (f_mul is64 0 (fb_abs is64 (f_sub is64 U L)))) with (scaled is64 L U 0) in Eq0.
  set (x0 := scaled is64 L U 0) in *.
  assert (Hle0 : f_le is64 x0 L = true) by (unfold f_le; rewrite Eq0; reflexivity).
  assert (Hge0 : f_le is64 L x0 = true).
  { unfold f_le. rewrite (fcmp_antisym is64 x0 L Eq Eq0). reflexivity. }
  assert (Fx0 : f_is_finite is64 x0 = true) by exact (f_between_finite is64 L x0 L HL HL Hge0 Hle0).
  pose proof (fun z => f_add_eq_congr is64 x0 L (correction_delta is64) z HL Fd Eq0) as Hc.
  pose proof (f_add_not_nan is64 x0 (correction_delta is64) Fx0 Fd) as Nx1.
  set (x1 := f_add is64 x0 (correction_delta is64)) in *.
  assert (Hle1 : f_le is64 x1 L = true).
  { apply f_gt_false_le; [exact Nx1 | exact NL |]. unfold f_gt. rewrite Hc. exact Hd. }
  assert (G : f_ge is64 x1 U = false).
  { pose proof (proj1 (fcmp_le_lt_trans is64 x1 L U) Hle1 HLU) as Hlt.
    revert Hlt. unfold f_lt, f_ge. destruct (fcmp is64 x1 U) as [[| |]|]; congruence. }
  assert (Hi : arb_float_inner is64 d vs bs = Some x1).
  { rewrite (arb_float_inner_two is64 d vs bs _ _ Hb). cbn [fb_val].
    rewrite from0to1_fst, Hdraw, unit_ratio_zero. fold L. fold x0.
    unfold adjust_lower, adjust_upper. cbn [fb_incl fb_val]. rewrite Hle0. fold x1. rewrite G. reflexivity. }
  apply (arb_float_panic_of_check_in lib d is64 Hf vs (VGreater bl) bs _ Hs Hv Hi Hin).
  unfold check_of. rewrite Hf. fold L. rewrite Hle1. discriminate.
Qed.

(* E3b: the largest overshoot is not absorbed by one delta (xmax >= U, xmax - delta >= U) and xmax is
   above L (the lower correction leaves it alone): every input whose first draw is the all-ones
   integer (u = 1.0, scaled value xmax) is rejected by `less` *)
Theorem arb_float_excl_excl_overshoot_panic (lib : fnlib) (d : decl) (is64 : bool) (vs : list validator)
    (bu : bound) (L : Z) (bs : bytes) :
  d_family d = FFloat is64 -> d_sans d = [] -> d_validation d = Some (RVStandard vs) ->
  In (VLess bu) vs ->
  fboundaries d vs None None =
    (Some {| fb_val := L; fb_incl := false |}, Some {| fb_val := bval d bu; fb_incl := false |}) ->
  f_is_finite is64 (f_sub is64 (bval d bu) L) = true ->
  f_ge is64 (f_xmax is64 L (bval d bu)) (bval d bu) = true ->
  f_lt is64 (f_sub is64 (f_xmax is64 L (bval d bu)) (correction_delta is64)) (bval d bu) = false ->
  f_gt is64 (f_xmax is64 L (bval d bu)) L = true ->
  fst (arb_uint (fsize is64) bs) = uint_max is64 ->
  arb_float lib d bs = OPanic.
Proof.
  intros Hf Hs Hv Hin Hb Hrange Hge Hnlt Hgt Hdraw.
  set (U := bval d bu) in *.
  assert (HleL : f_le is64 (f_xmax is64 L U) L = false).
  { revert Hgt. unfold f_gt, f_le. destruct (fcmp is64 (f_xmax is64 L U) L) as [[| |]|]; congruence. }
  assert (Hi : arb_float_inner is64 d vs bs = Some (f_sub is64 (f_xmax is64 L U) (correction_delta is64))).
  { rewrite (arb_float_inner_two is64 d vs bs _ _ Hb). cbn [fb_val].
    rewrite from0to1_fst, Hdraw, unit_ratio_max, <- f_xmax_scaled.
    unfold adjust_lower, adjust_upper. cbn [fb_incl fb_val]. rewrite HleL, Hge. reflexivity. }
  apply (arb_float_panic_of_check_in lib d is64 Hf vs (VLess bu) bs _ Hs Hv Hi Hin).
  unfold check_of. rewrite Hf. fold U.
  destruct (f_sub_finite_inv is64 U L Hrange) as [HU HL].
  destruct (f_one_spec is64) as [F1 R1].
  destruct (scaled_bounds is64 L U (f_one is64) Hrange F1 ltac:(lra)) as (_ & _ & Nxm).
  assert (G : f_ge is64 (f_sub is64 (f_xmax is64 L U) (correction_delta is64)) U = true).
  { apply f_lt_false_ge; [|apply finite_not_nan; exact HU | exact Hnlt].
    apply f_sub_not_nan_l; [exact Nxm | apply delta_finite]. }
  rewrite G. discriminate.
Qed.

Corollary arb_float_excl_excl_overshoot_panic_ones (lib : fnlib) (d : decl) (is64 : bool) (vs : list validator)
    (bu : bound) (L : Z) :
  d_family d = FFloat is64 -> d_sans d = [] -> d_validation d = Some (RVStandard vs) ->
  In (VLess bu) vs ->
  fboundaries d vs None None =
    (Some {| fb_val := L; fb_incl := false |}, Some {| fb_val := bval d bu; fb_incl := false |}) ->
  f_is_finite is64 (f_sub is64 (bval d bu) L) = true ->
  f_ge is64 (f_xmax is64 L (bval d bu)) (bval d bu) = true ->
  f_lt is64 (f_sub is64 (f_xmax is64 L (bval d bu)) (correction_delta is64)) (bval d bu) = false ->
  f_gt is64 (f_xmax is64 L (bval d bu)) L = true ->
  arb_float lib d (repeat 255 (fsize is64)) = OPanic.
Proof.
  intros Hf Hs Hv Hin Hb Hrange Hge Hnlt Hgt.
  exact (arb_float_excl_excl_overshoot_panic lib d is64 vs bu L _ Hf Hs Hv Hin Hb Hrange Hge Hnlt Hgt
           (arb_uint_ones is64)).
Qed.

(* ====================================================================================== *)
(* 5'. Over-correction witnesses: narrow ranges                                           *)
(* ====================================================================================== *)

(* [L, U): the largest scaled value reaches U and one delta takes it BELOW L (the range is
   narrower than the delta): every input whose first draw is the all-ones integer is rejected by
   `greater_or_equal` *)
Theorem arb_float_incl_excl_overcorrect_panic (lib : fnlib) (d : decl) (is64 : bool) (vs : list validator)
    (bl : bound) (U : Z) (bs : bytes) :
  d_family d = FFloat is64 -> d_sans d = [] -> d_validation d = Some (RVStandard vs) ->
  In (VGreaterOrEqual bl) vs ->
  fboundaries d vs None None =
    (Some {| fb_val := bval d bl; fb_incl := true |}, Some {| fb_val := U; fb_incl := false |}) ->
  f_ge is64 (f_xmax is64 (bval d bl) U) U = true ->
  f_lt is64 (f_sub is64 (f_xmax is64 (bval d bl) U) (correction_delta is64)) (bval d bl) = true ->
  fst (arb_uint (fsize is64) bs) = uint_max is64 ->
  arb_float lib d bs = OPanic.
Proof.
  intros Hf Hs Hv Hin Hb Hge Hlt Hdraw.
  set (L := bval d bl) in *.
  assert (Hi : arb_float_inner is64 d vs bs = Some (f_sub is64 (f_xmax is64 L U) (correction_delta is64))).
  { rewrite (arb_float_inner_two is64 d vs bs _ _ Hb). cbn [fb_val].
    rewrite from0to1_fst, Hdraw, unit_ratio_max. fold L. rewrite <- f_xmax_scaled.
    unfold adjust_lower, adjust_upper. cbn [fb_incl fb_val]. rewrite Hge. reflexivity. }
  apply (arb_float_panic_of_check_in lib d is64 Hf vs (VGreaterOrEqual bl) bs _ Hs Hv Hi Hin).
  unfold check_of. rewrite Hf. fold L. rewrite Hlt. discriminate.
Qed.

Corollary arb_float_incl_excl_overcorrect_panic_ones (lib : fnlib) (d : decl) (is64 : bool) (vs : list validator)
    (bl : bound) (U : Z) :
  d_family d = FFloat is64 -> d_sans d = [] -> d_validation d = Some (RVStandard vs) ->
  In (VGreaterOrEqual bl) vs ->
  fboundaries d vs None None =
    (Some {| fb_val := bval d bl; fb_incl := true |}, Some {| fb_val := U; fb_incl := false |}) ->
  f_ge is64 (f_xmax is64 (bval d bl) U) U = true ->
  f_lt is64 (f_sub is64 (f_xmax is64 (bval d bl) U) (correction_delta is64)) (bval d bl) = true ->
  arb_float lib d (repeat 255 (fsize is64)) = OPanic.
Proof.
  intros Hf Hs Hv Hin Hb Hge Hlt.
  exact (arb_float_incl_excl_overcorrect_panic lib d is64 vs bl U _ Hf Hs Hv Hin Hb Hge Hlt (arb_uint_ones is64)).
Qed.

(* (L, U): the same, the corrected value being rejected by `greater` *)
Theorem arb_float_excl_excl_overcorrect_panic (lib : fnlib) (d : decl) (is64 : bool) (vs : list validator)
    (bl : bound) (U : Z) (bs : bytes) :
  d_family d = FFloat is64 -> d_sans d = [] -> d_validation d = Some (RVStandard vs) ->
  In (VGreater bl) vs ->
  fboundaries d vs None None =
    (Some {| fb_val := bval d bl; fb_incl := false |}, Some {| fb_val := U; fb_incl := false |}) ->
  f_ge is64 (f_xmax is64 (bval d bl) U) U = true ->
  f_gt is64 (f_xmax is64 (bval d bl) U) (bval d bl) = true ->
  f_le is64 (f_sub is64 (f_xmax is64 (bval d bl) U) (correction_delta is64)) (bval d bl) = true ->
  fst (arb_uint (fsize is64) bs) = uint_max is64 ->
  arb_float lib d bs = OPanic.
Proof.
  intros Hf Hs Hv Hin Hb Hge Hgt Hle Hdraw.
  set (L := bval d bl) in *.
  assert (HleL : f_le is64 (f_xmax is64 L U) L = false).
  { revert Hgt. unfold f_gt, f_le. destruct (fcmp is64 (f_xmax is64 L U) L) as [[| |]|]; congruence. }
  assert (Hi : arb_float_inner is64 d vs bs = Some (f_sub is64 (f_xmax is64 L U) (correction_delta is64))).
  { rewrite (arb_float_inner_two is64 d vs bs _ _ Hb). cbn [fb_val].
    rewrite from0to1_fst, Hdraw, unit_ratio_max. fold L. rewrite <- f_xmax_scaled.
    unfold adjust_lower, adjust_upper. cbn [fb_incl fb_val]. rewrite HleL, Hge. reflexivity. }
  apply (arb_float_panic_of_check_in lib d is64 Hf vs (VGreater bl) bs _ Hs Hv Hi Hin).
  unfold check_of. rewrite Hf. fold L. rewrite Hle. discriminate.
Qed.

Corollary arb_float_excl_excl_overcorrect_panic_ones (lib : fnlib) (d : decl) (is64 : bool) (vs : list validator)
    (bl : bound) (U : Z) :
  d_family d = FFloat is64 -> d_sans d = [] -> d_validation d = Some (RVStandard vs) ->
  In (VGreater bl) vs ->
  fboundaries d vs None None =
    (Some {| fb_val := bval d bl; fb_incl := false |}, Some {| fb_val := U; fb_incl := false |}) ->
  f_ge is64 (f_xmax is64 (bval d bl) U) U = true ->
  f_gt is64 (f_xmax is64 (bval d bl) U) (bval d bl) = true ->
  f_le is64 (f_sub is64 (f_xmax is64 (bval d bl) U) (correction_delta is64)) (bval d bl) = true ->
  arb_float lib d (repeat 255 (fsize is64)) = OPanic.
Proof.
  intros Hf Hs Hv Hin Hb Hge Hgt Hle.
  exact (arb_float_excl_excl_overcorrect_panic lib d is64 vs bl U _ Hf Hs Hv Hin Hb Hge Hgt Hle (arb_uint_ones is64)).
Qed.

(* ====================================================================================== *)
(* 6. Non-vacuity                                                                         *)
(* ====================================================================================== *)

(* E1: f64, finite, greater = 0.5 (both orders): valid for EVERY byte string *)
Example finite_lower_excl_instance (lib : fnlib) (bs : bytes) :
  let d1 := excl_ex true [VFinite; VGreater (BLit 4602678819172646912)] in
  let d2 := excl_ex true [VGreater (BLit 4602678819172646912); VFinite] in
  (exists x, arb_float lib d1 bs = OOk (VF x) /\
             f_is_finite true x = true /\ f_gt true x 4602678819172646912 = true) /\
  (exists x, arb_float lib d2 bs = OOk (VF x) /\
             f_is_finite true x = true /\ f_gt true x 4602678819172646912 = true).
Proof.
  intros d1 d2. split.
  - apply (arb_float_finite_lower_excl_ok lib d1 true [VFinite; VGreater (BLit 4602678819172646912)] (BLit 4602678819172646912) bs).
    + reflexivity.
    + reflexivity.
    + reflexivity.
    + left; reflexivity.
    + vm_compute; reflexivity.
    + vm_compute; reflexivity.
    + vm_compute; reflexivity.
  - apply (arb_float_finite_lower_excl_ok lib d2 true [VGreater (BLit 4602678819172646912); VFinite] (BLit 4602678819172646912) bs).
    + reflexivity.
    + reflexivity.
    + reflexivity.
    + right; reflexivity.
    + vm_compute; reflexivity.
    + vm_compute; reflexivity.
    + vm_compute; reflexivity.
Qed.

(* E1': f32, finite, greater = 64.0: the empty input and four zero bytes panic *)
Example finite_lower_excl_absorbed_instance (lib : fnlib) :
  let d := excl_ex false [VFinite; VGreater (BLit 1115684864)] in
  arb_float lib d [] = OPanic /\ arb_float lib d [0; 0; 0; 0] = OPanic.
Proof.
  intros d.
  apply (arb_float_finite_lower_excl_absorbed_panic_nil lib d false [VFinite; VGreater (BLit 1115684864)] (BLit 1115684864)).
  - reflexivity.
  - reflexivity.
  - reflexivity.
  - left; reflexivity.
  - vm_compute; reflexivity.
  - vm_compute; reflexivity.
Qed.

(* E2: f64, less = 0.5, finite *)
Example finite_upper_excl_instance (lib : fnlib) (bs : bytes) :
  let d := excl_ex true [VLess (BLit 4602678819172646912); VFinite] in
  exists x, arb_float lib d bs = OOk (VF x) /\
            f_is_finite true x = true /\ f_lt true x 4602678819172646912 = true.
Proof.
  intros d.
  apply (arb_float_finite_upper_excl_ok lib d true [VLess (BLit 4602678819172646912); VFinite] (BLit 4602678819172646912) bs).
  - reflexivity.
  - reflexivity.
  - reflexivity.
  - right; reflexivity.
  - vm_compute; reflexivity.
  - vm_compute; reflexivity.
  - vm_compute; reflexivity.
Qed.

(* E2': f32, finite, less = 128.0 *)
Example finite_upper_excl_absorbed_instance (lib : fnlib) :
  let d := excl_ex false [VFinite; VLess (BLit 1124073472)] in
  arb_float lib d [] = OPanic /\ arb_float lib d [0; 0; 0; 0] = OPanic.
Proof.
  intros d.
  apply (arb_float_finite_upper_excl_absorbed_panic_nil lib d false [VFinite; VLess (BLit 1124073472)] (BLit 1124073472)).
  - reflexivity.
  - reflexivity.
  - reflexivity.
  - left; reflexivity.
  - vm_compute; reflexivity.
  - vm_compute; reflexivity.
Qed.

(* E3a: f32 (64.0, 65.0): the delta is absorbed at 64.0, the empty input panics *)
Example excl_excl_absorbed_instance (lib : fnlib) :
  let d := excl_ex false [VGreater (BLit 1115684864); VLess (BLit 1115815936)] in
  arb_float lib d [] = OPanic.
Proof.
  intros d.
  apply (arb_float_excl_excl_absorbed_panic lib d false
           [VGreater (BLit 1115684864); VLess (BLit 1115815936)] (BLit 1115684864) 1115815936 []).
  - reflexivity.
  - reflexivity.
  - reflexivity.
  - left; reflexivity.
  - reflexivity.
  - vm_compute; reflexivity.
  - vm_compute; reflexivity.
  - vm_compute; reflexivity.
  - reflexivity.
Qed.

(* E3b: f32 (63.5, 65.0): at 63.5 the delta is still visible, but xmax = 65.0 and 65.0 - 0.000002
   rounds back to 65.0: the all-ones input panics *)
Example excl_excl_overshoot_instance (lib : fnlib) :
  let d := excl_ex false [VFinite; VGreater (BLit 1115553792); VLess (BLit 1115815936)] in
  arb_float lib d [255; 255; 255; 255] = OPanic.
Proof.
  intros d.
  apply (arb_float_excl_excl_overshoot_panic_ones lib d false
           [VFinite; VGreater (BLit 1115553792); VLess (BLit 1115815936)] (BLit 1115815936) 1115553792).
  - reflexivity.
  - reflexivity.
  - reflexivity.
  - right; right; left; reflexivity.
  - reflexivity.
  - vm_compute; reflexivity.
  - vm_compute; reflexivity.
  - vm_compute; reflexivity.
  - vm_compute; reflexivity.
Qed.

(* over-correction: f32 [1e-40, 1e-39) (subnormal bounds 71362 and 713624 ulps): xmax = U and
   U - 0.000002 is negative, below L: the all-ones input panics; the same for (1e-40, 1e-39) *)
Example incl_excl_overcorrect_instance (lib : fnlib) :
  let d1 := excl_ex false [VGreaterOrEqual (BLit 71362); VLess (BLit 713624)] in
  let d2 := excl_ex false [VGreater (BLit 71362); VLess (BLit 713624)] in
  arb_float lib d1 [255; 255; 255; 255] = OPanic /\ arb_float lib d2 [255; 255; 255; 255] = OPanic.
Proof.
  intros d1 d2. split.
  - apply (arb_float_incl_excl_overcorrect_panic_ones lib d1 false
             [VGreaterOrEqual (BLit 71362); VLess (BLit 713624)] (BLit 71362) 713624).
    + reflexivity.
    + reflexivity.
    + reflexivity.
    + left; reflexivity.
    + reflexivity.
    + vm_compute; reflexivity.
    + vm_compute; reflexivity.
  - apply (arb_float_excl_excl_overcorrect_panic_ones lib d2 false
             [VGreater (BLit 71362); VLess (BLit 713624)] (BLit 71362) 713624).
    + reflexivity.
    + reflexivity.
    + reflexivity.
    + left; reflexivity.
    + reflexivity.
    + vm_compute; reflexivity.
    + vm_compute; reflexivity.
    + vm_compute; reflexivity.
Qed.
