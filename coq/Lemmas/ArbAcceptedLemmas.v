(* Discharging the side conditions of C09_int / C14 for declarations the macro accepts. *)
From NV Require Import Base.Util Base.IntTy Base.Expr Macro.Surface Macro.Ast Macro.Parse Macro.Validate
     Sem.Guard Sem.Value Sem.Eval Sem.Bytes Sem.ArbInt Spec.GuardSpec
     Lemmas.MacroLemmas Lemmas.BytesLemmas Lemmas.ArbIntLemmas.
From Coq Require Import Zify ZifyBool ZifyNat.
Local Open Scope Z_scope.

Lemma is_lower_kinds (v : validator) :
  existsb (vkind_eqb (vkind_of v)) [KGreater; KGreaterOrEqual] = is_lower v.
Proof. destruct v; reflexivity. Qed.

Lemma is_upper_kinds (v : validator) :
  existsb (vkind_eqb (vkind_of v)) [KLess; KLessOrEqual] = is_upper v.
Proof. destruct v; reflexivity. Qed.

Lemma filter_le1_existsb {X} (p : X -> bool) (l : list X) :
  (List.length (filter p l) <= 1)%nat ->
  match l with [] => True | x :: r => p x = true -> existsb p r = false end.
Proof.
  destruct l as [|x r]; [trivial|]. cbn. destruct (p x) eqn:E; intros H Hp; [|discriminate].
  cbn in H. destruct (existsb p r) eqn:Ee; [|reflexivity].
  apply existsb_exists in Ee. destruct Ee as (y & Hin & Hy).
  assert (Hl : (1 <= List.length (filter p r))%nat).
  { assert (Hf : In y (filter p r)) by (apply filter_In; auto).
    destruct (filter p r); [contradiction | cbn; lia]. }
  lia.
Qed.

Lemma single_bounds_of_counts (vs : list validator) :
  (List.length (filter is_lower vs) <= 1)%nat -> (List.length (filter is_upper vs) <= 1)%nat ->
  single_bounds vs = true.
Proof.
  induction vs as [|v vs IH]; intros Hl Hu; [reflexivity|].
  cbn [single_bounds].
  pose proof (filter_le1_existsb is_lower (v :: vs) Hl) as H1.
  pose proof (filter_le1_existsb is_upper (v :: vs) Hu) as H2.
  cbn [filter] in Hl, Hu.
  assert (Hl' : (List.length (filter is_lower vs) <= 1)%nat) by (destruct (is_lower v); cbn in Hl; lia).
  assert (Hu' : (List.length (filter is_upper vs) <= 1)%nat) by (destruct (is_upper v); cbn in Hu; lia).
  rewrite (IH Hl' Hu').
  cbn in H1, H2.
  destruct (is_lower v) eqn:E1; [rewrite (H1 eq_refl)|]; destruct (is_upper v) eqn:E2; try rewrite (H2 eq_refl); reflexivity.
Qed.

Lemma filter_ext_len {X} (p q : X -> bool) (l : list X) :
  (forall x, p x = q x) -> List.length (filter p l) = List.length (filter q l).
Proof. intros H. induction l as [|x l IH]; cbn; [reflexivity|]. rewrite H. destruct (q x); cbn; lia. Qed.

(* an accepted numeric declaration has at most one lower and one upper bound *)
Theorem accepted_single_bounds (ft : features) (sd : sdecl) (d : decl) (tn : string) (t : int_ty) (vs : list validator) :
  macro_verdict ft sd = Accept d -> d_family d = FInt tn t -> d_validation d = Some (RVStandard vs) ->
  single_bounds vs = true.
Proof.
  intros H Hf Hv.
  destruct (macro_verdict_inv _ _ _ H) as (fam & p & ts & _ & _ & _ & _ & Hg & Hfam & _ & Hpv & _).
  unfold gen_checks in Hg. apply vbind_accept in Hg. destruct Hg as ([] & Hc & _).
  apply guardv_accept in Hc. rewrite <- Hfam, Hf in Hc. cbn [is_numeric andb] in Hc.
  unfold count_kinds in Hc. rewrite <- Hpv, Hv in Hc.
  apply single_bounds_of_counts.
  - rewrite <- (filter_ext_len _ _ vs is_lower_kinds). lia.
  - rewrite <- (filter_ext_len _ _ vs is_upper_kinds). lia.
Qed.

(* with derive(Arbitrary) accepted, an integer declaration has bound validators only *)
Theorem accepted_arbitrary_bounds_only (ft : features) (sd : sdecl) (d : decl) (tn : string) (t : int_ty) (vs : list validator) :
  macro_verdict ft sd = Accept d -> d_family d = FInt tn t -> d_validation d = Some (RVStandard vs) ->
  has_trait TrArbitrary (d_traits d) = true ->
  (forall v, In v vs -> match v with VGreater _ | VGreaterOrEqual _ | VLess _ | VLessOrEqual _ | VPredicate _ => True | _ => False end) ->
  forallb is_bound_validator vs = true.
Proof.
  intros H Hf Hv Ha Hk.
  destruct (macro_verdict_inv _ _ _ H) as (fam & p & ts & _ & _ & _ & _ & Hg & Hfam & _ & Hpv & Hts & _).
  unfold gen_checks in Hg. apply vbind_accept in Hg. destruct Hg as ([] & _ & Hg).
  apply vbind_accept in Hg. destruct Hg as ([] & _ & Hg).
  rewrite <- Hts, Ha in Hg. rewrite <- Hfam, Hf in Hg.
  apply vbind_accept in Hg. destruct Hg as ([] & _ & Hp). apply guardv_accept in Hp.
  unfold has_vkind in Hp. rewrite <- Hpv, Hv in Hp.
  rewrite forallb_forall. intros v Hin. specialize (Hk v Hin).
  destruct v; try contradiction; try reflexivity.
  exfalso. assert (He : existsb (fun v => vkind_eqb (vkind_of v) KPredicate) vs = true).
  { apply existsb_exists. exists (VPredicate f). split; [exact Hin | reflexivity]. }
  congruence.
Qed.
