(* Rust compares `str` / `String` BYTE-wise (memcmp of the UTF-8 form), the model compares
   strings scalar value by scalar value (Sem.Order.value_pcmp on VS).  UTF-8 preserves the
   order of code points, so the two coincide: proved here for every pair of strings. *)
From NV Require Import Base.Util Sem.Json Sem.Utf8 Sem.Order.
Require Import Lia ZArith NArith ZifyBool ZifyN.
Ltac Zify.zify_post_hook ::= Z.div_mod_to_equations.
Local Open Scope N_scope.

Lemma lex_cmp_app_same (p a b : list N) :
  lex_cmp N.compare (p ++ a) (p ++ b) = lex_cmp N.compare a b.
Proof.
  induction p as [|x p IH]; cbn [List.app lex_cmp]; [reflexivity|].
  rewrite N.compare_refl. exact IH.
Qed.

Ltac cmp_step :=
  cbn [List.app lex_cmp];
  match goal with
  | |- context [N.compare ?x ?y] =>
      destruct (N.compare_spec x y); [ | reflexivity | exfalso; lia ]
  end.

(* a smaller code point has the smaller encoding, whatever follows *)
Lemma utf8_char_lt (c d : N) (r1 r2 : list N) :
  c < d ->
  lex_cmp N.compare (utf8_encode_char c ++ r1) (utf8_encode_char d ++ r2) = Lt.
Proof.
  intros Hlt. unfold utf8_encode_char.
  destruct (N.ltb_spec c 0x80) as [C1|C1]; destruct (N.ltb_spec d 0x80) as [D1|D1]; try lia.
  { cmp_step. exfalso; lia. }
  { destruct (N.ltb_spec d 0x800); [|destruct (N.ltb_spec d 0x10000)]; cmp_step; exfalso; lia. }
  destruct (N.ltb_spec c 0x800) as [C2|C2]; destruct (N.ltb_spec d 0x800) as [D2|D2]; try lia.
  { cmp_step. cmp_step. exfalso; lia. }
  { destruct (N.ltb_spec d 0x10000); cmp_step; exfalso; lia. }
  destruct (N.ltb_spec c 0x10000) as [C3|C3]; destruct (N.ltb_spec d 0x10000) as [D3|D3]; try lia.
  { cmp_step. cmp_step. cmp_step. exfalso; lia. }
  { cmp_step; exfalso; lia. }
  cmp_step. cmp_step. cmp_step. cmp_step. exfalso; lia.
Qed.

Lemma lex_cmp_N_antisym (a b : list N) :
  lex_cmp N.compare b a = CompOpp (lex_cmp N.compare a b).
Proof.
  revert b. induction a as [|x a IH]; intros [|y b]; cbn; try reflexivity.
  rewrite (N.compare_antisym x y). destruct (N.compare x y); cbn; [apply IH | reflexivity | reflexivity].
Qed.

(* byte order of the UTF-8 forms = code point order of the strings *)
Theorem utf8_order_preserved (s t : list N) :
  lex_cmp N.compare (utf8_encode s) (utf8_encode t) = lex_cmp N.compare s t.
Proof.
  revert t. induction s as [|c s IH]; intros [|d t]; unfold utf8_encode; cbn [flat_map lex_cmp].
  - reflexivity.
  - destruct (utf8_encode_char d) as [|x r] eqn:E; [|reflexivity].
    exfalso. revert E. unfold utf8_encode_char.
    destruct (_ <? _); [discriminate|]. destruct (_ <? _); [discriminate|].
    destruct (_ <? _); discriminate.
  - destruct (utf8_encode_char c) as [|x r] eqn:E; [|reflexivity].
    exfalso. revert E. unfold utf8_encode_char.
    destruct (_ <? _); [discriminate|]. destruct (_ <? _); [discriminate|].
    destruct (_ <? _); discriminate.
  - destruct (N.compare_spec c d) as [Heq|Hlt|Hgt].
    + subst d. rewrite lex_cmp_app_same. apply IH.
    + apply utf8_char_lt. exact Hlt.
    + rewrite lex_cmp_N_antisym. rewrite (utf8_char_lt d c _ _ Hgt). reflexivity.
Qed.

(* ---- size of the UTF-8 form: between one and four bytes per scalar value ---- *)
Lemma utf8_encode_char_length (c : N) :
  (1 <= List.length (utf8_encode_char c) <= 4)%nat.
Proof.
  unfold utf8_encode_char.
  destruct (_ <? _); [cbn; lia|]. destruct (_ <? _); [cbn; lia|]. destruct (_ <? _); cbn; lia.
Qed.

Theorem utf8_encode_length (s : list N) :
  (List.length s <= List.length (utf8_encode s) <= 4 * List.length s)%nat.
Proof.
  induction s as [|c s IH]; unfold utf8_encode in *; cbn [flat_map List.length]; [lia|].
  rewrite app_length. pose proof (utf8_encode_char_length c). lia.
Qed.

(* == of Rust strings is equality of the byte forms; of the model, equality of the scalar lists:
   the same relation (no hypothesis on the code points is needed) *)
From NV Require Import Lemmas.ViewLemmas.
Theorem utf8_encode_eq_iff (s t : list N) : utf8_encode s = utf8_encode t <-> s = t.
Proof.
  split; [|intros ->; reflexivity]. intros E.
  apply (lex_cmp_eq_iff N.compare s t); [intros; apply N.compare_eq_iff|].
  rewrite <- utf8_order_preserved, E.
  apply (lex_cmp_eq_iff N.compare); [intros; apply N.compare_eq_iff | reflexivity].
Qed.
