(* Soundness of the decision procedure Sem/ArbStrDecide.v:
     S1  arb_str_decide d = SVTotal        -> for every well-formed byte string the generator
                                              returns a value and the value is valid;
     S2  arb_str_decide d = SVPanicsOn bs  -> bs is well formed and the generator panics on it;
     S3  examples by vm_compute.
   SVTotal is discharged by [arb_str_valid] (Lemmas/ArbStrLemmas.v) and
   [arb_str_builtin_min_valid] (Lemmas/ArbStrCaseLemmas.v); SVPanicsOn by the witness
   construction proved here for every len_char_max >= 1 (symbolic mx). *)
From Coq Require Import ZArith NArith Lia List Bool ZifyNat ZifyBool.
From NV Require Import Base.Util Base.IntTy Base.Expr Macro.Surface Macro.Ast Macro.Parse
     Macro.Validate Sem.Guard Sem.Value Sem.Eval Sem.Bytes Sem.ArbStr Sem.ArbStrDecide
     Spec.GuardSpec
     Lemmas.GuardLemmas Lemmas.DeclLemmas Lemmas.BytesLemmas Lemmas.ArbStrLemmas
     Lemmas.CanonLemmas Lemmas.ArbStrCaseLemmas Run.Runner.
From NV Require Import Unicode.UnicodeData Unicode.UStr Lemmas.UnicodeLemmas.
Import ListNotations.
Local Open Scope Z_scope.

(* ====================================================================================== *)
(* 0. The locally re-defined tests are the ones of the Lemmas files                       *)
(* ====================================================================================== *)

Lemma dec_gen_validator_eq (v : validator) : dec_gen_validator v = str_gen_validator v.
Proof. reflexivity. Qed.
Lemma dec_min_validator_eq (v : validator) : dec_min_validator v = str_min_validator v.
Proof. reflexivity. Qed.
Lemma dec_plain_sans_eq (ss : list sanitizer) : dec_plain_sans ss = str_gen_sans ss.
Proof. reflexivity. Qed.
Lemma dec_accepted_chain_eq (ss : list sanitizer) : dec_accepted_chain ss = accepted_builtin_chain ss.
Proof. reflexivity. Qed.
Lemma dec_has_lower_eq (ss : list sanitizer) : dec_has_lower ss = has_lower ss.
Proof. reflexivity. Qed.
Lemma dec_has_upper_eq (ss : list sanitizer) : dec_has_upper ss = has_upper ss.
Proof. reflexivity. Qed.

Lemma dec_be_bytes_eq (n : nat) : forall x, dec_be_bytes n x = be_bytes n x.
Proof.
  induction n as [|n IH]; intros x; [reflexivity|].
  cbn [dec_be_bytes be_bytes]. rewrite IH. reflexivity.
Qed.

(* ====================================================================================== *)
(* 1. The witness: int_in_range answers its upper end                                     *)
(* ====================================================================================== *)

Lemma pow256_8 : 256 ^ Z.of_nat (Z.to_nat (bits usize_ty / 8)) = 2 ^ 64.
Proof. vm_compute. reflexivity. Qed.

Lemma bits_usize : 2 ^ bits usize_ty = 2 ^ 64.
Proof. vm_compute. reflexivity. Qed.

Lemma delta_lt_wanted (delta : Z) :
  0 < delta -> delta <= 2 ^ 64 - 1 ->
  0 <= delta < 256 ^ Z.of_nat (bytes_wanted usize_ty delta).
Proof.
  intros Hpos Hle. split; [lia|]. unfold bytes_wanted.
  destruct (Nat.min_spec (Z.to_nat (bits usize_ty / 8)) (Z.to_nat (Z.log2 delta / 8 + 1)))
    as [[_ E]|[_ E]]; rewrite E.
  - rewrite pow256_8. lia.
  - apply log2_lt_pow256. exact Hpos.
Qed.

Lemma pick_max_ok (mn mx : Z) (rest : bytes) :
  mn <= mx -> mx - mn <= 2 ^ 64 - 1 ->
  int_in_range usize_ty mn mx (dec_pick_max mn mx ++ rest) = Some (mx, rest) /\
  bytes_ok (dec_pick_max mn mx) = true.
Proof.
  intros Hle Hd. unfold int_in_range, dec_pick_max.
  destruct (mx <? mn) eqn:E1; [lia|].
  destruct (mn =? mx) eqn:E2.
  - split; [|reflexivity]. cbn [app]. f_equal. f_equal. lia.
  - assert (Hpos : 0 < mx - mn) by lia.
    pose proof (delta_lt_wanted (mx - mn) Hpos Hd) as Hw.
    rewrite dec_be_bytes_eq. split; [|apply be_bytes_ok; exact Hw].
    rewrite (take_be_be_bytes _ _ 0 rest Hw).
    rewrite bits_usize.
    destruct (mx - mn =? 2 ^ 64 - 1) eqn:E3.
    + f_equal. f_equal. lia.
    + rewrite Z.mod_small by lia. f_equal. f_equal. lia.
Qed.

(* ====================================================================================== *)
(* 2. The witness: the characters                                                         *)
(* ====================================================================================== *)

Definition ESZETT : N := 223.     (* U+00DF LATIN SMALL LETTER SHARP S *)
Definition IDOT : N := 304.       (* U+0130 LATIN CAPITAL LETTER I WITH DOT ABOVE *)

Lemma arb_char_eszett (r : bytes) : arb_char (223 :: 0 :: 0 :: 0 :: r) = (ESZETT, r).
Proof. vm_compute. reflexivity. Qed.

Lemma arb_char_idot (r : bytes) : arb_char (48 :: 1 :: 0 :: 0 :: r) = (IDOT, r).
Proof. vm_compute. reflexivity. Qed.

Lemma take_chars_groups (b0 b1 : Z) (c : N) :
  (forall r, arb_char (b0 :: b1 :: 0 :: 0 :: r) = (c, r)) ->
  forall (n : nat) (rest : bytes),
    take_chars n (dec_char_groups b0 b1 n ++ rest) = (repeat c n, rest).
Proof.
  intros Hc. induction n as [|n IH]; intros rest; [reflexivity|].
  cbn [dec_char_groups app take_chars repeat]. rewrite Hc, IH. reflexivity.
Qed.

Lemma char_groups_ok (b0 b1 : Z) (n : nat) :
  byte_ok b0 = true -> byte_ok b1 = true -> bytes_ok (dec_char_groups b0 b1 n) = true.
Proof.
  intros H0 H1. induction n as [|n IH]; [reflexivity|].
  unfold bytes_ok in *. cbn [dec_char_groups forallb]. rewrite H0, H1, IH. reflexivity.
Qed.

Lemma bytes_ok_app (a b : bytes) : bytes_ok a = true -> bytes_ok b = true -> bytes_ok (a ++ b) = true.
Proof. intros Ha Hb. unfold bytes_ok in *. rewrite forallb_app, Ha, Hb. reflexivity. Qed.

(* a string without white space is its own trim *)
Lemma hd_ok_of_Forall (s : list N) : Forall (fun x => u_is_ws x = false) s -> hd_ok s.
Proof. intros H. destruct H as [|x s Hx Hs]; [exact I | exact Hx]. Qed.

Lemma trimmed_of_Forall (s : list N) : Forall (fun x => u_is_ws x = false) s -> trimmed s.
Proof.
  intros H. split; [apply hd_ok_of_Forall; exact H|].
  apply hd_ok_of_Forall. apply Forall_rev'. exact H.
Qed.

Lemma u_trim_repeat (c : N) (n : nat) : u_is_ws c = false -> u_trim (repeat c n) = repeat c n.
Proof.
  intros Hc. apply u_trim_fix, trimmed_of_Forall. apply Forall_forall.
  intros x Hx. apply repeat_spec in Hx. subst x. exact Hc.
Qed.

Lemma eszett_not_ws : u_is_ws ESZETT = false.
Proof. vm_compute. reflexivity. Qed.
Lemma idot_not_ws : u_is_ws IDOT = false.
Proof. vm_compute. reflexivity. Qed.

(* the case mappings double the length *)
Lemma upper1_eszett : upper1 ESZETT = [83; 83]%N.
Proof. vm_compute. reflexivity. Qed.

Lemma lower_img_idot (rb r : list N) : lower_img rb IDOT r = [105; 775]%N.
Proof.
  unfold lower_img. change (N.eqb IDOT SIGMA) with false. cbv iota.
  vm_compute. reflexivity.
Qed.

Lemma u_upper_eszett_length (n : nat) : List.length (u_upper (repeat ESZETT n)) = (2 * n)%nat.
Proof.
  unfold u_upper. induction n as [|n IH]; [reflexivity|].
  cbn [repeat flat_map]. rewrite app_length, IH, upper1_eszett. cbn [List.length]. lia.
Qed.

Lemma ctx_lower_idot_length (n : nat) : forall rb,
  List.length (ctx_map lower_img rb (repeat IDOT n)) = (2 * n)%nat.
Proof.
  induction n as [|n IH]; intros rb; [reflexivity|].
  cbn [repeat ctx_map]. rewrite app_length, IH, lower_img_idot. cbn [List.length]. lia.
Qed.

Lemma u_lower_idot_length (n : nat) : List.length (u_lower (repeat IDOT n)) = (2 * n)%nat.
Proof. unfold u_lower. apply ctx_lower_idot_length. Qed.

(* ====================================================================================== *)
(* 3. The validators                                                                      *)
(* ====================================================================================== *)

Lemma first_max_in (d : decl) (vs : list validator) (m : Z) :
  first_max d vs = Some m -> exists b, In (VLenCharMax b) vs /\ bval d b = m.
Proof.
  induction vs as [|v vs IH]; intros H; [discriminate H|].
  destruct v; cbn [first_max] in H;
    try (destruct (IH H) as (b' & Hin & Hb); exists b'; split; [right; exact Hin | exact Hb]).
  injection H as H. eexists. split; [left; reflexivity | exact H].
Qed.

Lemma str_spec_first_max (d : decl) (vs : list validator) (mn mx m : Z) :
  d_validation d = Some (RVStandard vs) -> str_spec d = (mn, mx) -> first_max d vs = Some m ->
  m = mx.
Proof.
  intros Hv Hs Hm. rewrite (str_spec_eq d vs Hv), Hm in Hs. injection Hs as _ Hmx. exact Hmx.
Qed.

Section WithLib.
  Variable lib : fnlib.
  Hypothesis Hlib : unicode_lib lib.

  Lemma len_char_max_rejects (d : decl) (vs : list validator) (b : bound) (x : list N) :
    d_family d = FStr -> d_validation d = Some (RVStandard vs) ->
    In (VLenCharMax b) vs -> bval d b < Z.of_nat (List.length x) ->
    spec_valid lib d (VS x) = false.
  Proof.
    intros Hf Hv Hin Hlt. unfold spec_valid. rewrite Hv.
    destruct (forallb (fun v => holds lib d v (VS x)) vs) eqn:E; [|reflexivity].
    rewrite forallb_forall in E. specialize (E _ Hin). unfold holds in E. rewrite Hf in E. lia.
  Qed.

  (* the constructor rejects: the generated code panics *)
  Lemma try_new_invalid_panics (d : decl) (s : list N) :
    d_family d = FStr -> spec_valid lib d (spec_sanitize lib d (VS s)) = false ->
    match d_try_new lib d (VS s) with Ok v => OOk v | Err _ => OPanic end = OPanic.
  Proof.
    intros Hf Hinv. destruct (d_try_new lib d (VS s)) as [v|e] eqn:Ht; [|reflexivity].
    exfalso.
    assert (Hc : comparable d (spec_sanitize lib d (VS s)) = true)
      by (unfold comparable; rewrite Hf; reflexivity).
    apply (try_new_ok_iff_spec lib d (VS s) v Hc) in Ht. destruct Ht as [_ Ht]. congruence.
  Qed.

  (* the refill loop leaves a string of the target length without white space alone *)
  Lemma refill_done (f target : nat) (out : list N) (bs : bytes) :
    u_trim out = out -> List.length out = target ->
    refill lib (S f) target out bs = Some out.
  Proof.
    intros Ht Hl. cbn [refill]. rewrite (proj1 Hlib), Ht, Hl, Nat.eqb_refl. reflexivity.
  Qed.

  (* the generator up to try_new on the witness: mx copies of the character *)
  Lemma arb_str_inner_witness (d : decl) (mn mx : Z) (b0 b1 : Z) (c : N) :
    str_spec d = (mn, mx) -> mn <= mx -> mx - mn <= 2 ^ 64 - 1 ->
    (forall r, arb_char (b0 :: b1 :: 0 :: 0 :: r) = (c, r)) -> u_is_ws c = false ->
    arb_str_inner lib d (dec_pick_max mn mx ++ dec_char_groups b0 b1 (Z.to_nat mx)) =
    Some (Some (repeat c (Z.to_nat mx))).
  Proof.
    intros Hs Hle Hd Hc Hws. unfold arb_str_inner. rewrite Hs.
    rewrite (proj1 (pick_max_ok mn mx _ Hle Hd)).
    rewrite <- (app_nil_r (dec_char_groups b0 b1 (Z.to_nat mx))).
    rewrite (take_chars_groups b0 b1 c Hc (Z.to_nat mx) []).
    destruct (has_trim d); [|reflexivity].
    replace (List.length (@nil Z) + Z.to_nat mx + 1)%nat with (S (Z.to_nat mx))
      by (cbn [List.length]; lia).
    rewrite (refill_done _ _ _ _ (u_trim_repeat c _ Hws) (repeat_length c _)). reflexivity.
  Qed.

  (* S2 for the case-sanitizer region, symbolic mx *)
  Theorem arb_str_case_max_panics_gen (d : decl) (vs : list validator) (mn mx m : Z) :
    d_family d = FStr -> d_validation d = Some (RVStandard vs) ->
    accepted_builtin_chain (d_sans d) = true ->
    has_lower (d_sans d) || has_upper (d_sans d) = true ->
    str_spec d = (mn, mx) -> first_max d vs = Some m ->
    1 <= mx -> mx <= 2 ^ 64 - 1 -> 0 <= mn -> mn <= mx ->
    arb_str lib d (str_case_witness (has_lower (d_sans d)) mn mx) = OPanic /\
    bytes_ok (str_case_witness (has_lower (d_sans d)) mn mx) = true.
  Proof.
    intros Hf Hv Hacc Hcase Hs Hm H1 H64 H0 Hle.
    assert (Hd : mx - mn <= 2 ^ 64 - 1) by lia.
    pose proof (str_spec_first_max d vs mn mx m Hv Hs Hm) as ->.
    destruct (first_max_in d vs mx Hm) as (b & Hin & Hb).
    set (n := Z.to_nat mx).
    assert (Hn : Z.of_nat n = mx) by (unfold n; lia).
    split.
    - unfold arb_str. rewrite Hf, Hv. unfold str_case_witness.
      destruct (has_lower (d_sans d)) eqn:Hlo.
      + rewrite (arb_str_inner_witness d mn mx 48 1 IDOT Hs Hle Hd arb_char_idot idot_not_ws).
        apply (try_new_invalid_panics d _ Hf).
        rewrite (builtin_chain_normal_form lib Hlib d _ Hacc).
        assert (Ht : (if has_trim d then u_trim (repeat IDOT (Z.to_nat mx)) else repeat IDOT (Z.to_nat mx))
                     = repeat IDOT n)
          by (destruct (has_trim d); [apply u_trim_repeat; exact idot_not_ws | reflexivity]).
        rewrite Ht. unfold case_fn. rewrite Hlo.
        apply (len_char_max_rejects d vs b _ Hf Hv Hin).
        rewrite u_lower_idot_length. lia.
      + cbn [orb] in Hcase.
        rewrite (arb_str_inner_witness d mn mx 223 0 ESZETT Hs Hle Hd arb_char_eszett eszett_not_ws).
        apply (try_new_invalid_panics d _ Hf).
        rewrite (builtin_chain_normal_form lib Hlib d _ Hacc).
        assert (Ht : (if has_trim d then u_trim (repeat ESZETT (Z.to_nat mx)) else repeat ESZETT (Z.to_nat mx))
                     = repeat ESZETT n)
          by (destruct (has_trim d); [apply u_trim_repeat; exact eszett_not_ws | reflexivity]).
        rewrite Ht. unfold case_fn. rewrite Hlo, Hcase.
        apply (len_char_max_rejects d vs b _ Hf Hv Hin).
        rewrite u_upper_eszett_length. lia.
    - unfold str_case_witness. apply bytes_ok_app.
      + exact (proj2 (pick_max_ok mn mx [] Hle Hd)).
      + destruct (has_lower (d_sans d)); apply char_groups_ok; reflexivity.
  Qed.

  (* a case sanitizer with len_char_max = 0: the generator emits "" only, which every case
     mapping leaves alone *)
  Theorem arb_str_case_max0_valid (d : decl) (vs : list validator) (bs : bytes) :
    d_family d = FStr -> d_validation d = Some (RVStandard vs) ->
    forallb str_gen_validator vs = true ->
    has_dup vkind_eqb (map vkind_of vs) = false ->
    accepted_builtin_chain (d_sans d) = true ->
    str_spec d = (0, 0) -> bytes_ok bs = true ->
    exists v, arb_str lib d bs = OOk v /\ spec_valid lib d v = true.
  Proof.
    intros Hf Hv Hk Hdup Hacc Hs Hb.
    destruct (arb_str_inner_total lib (proj1 Hlib) d 0 0 bs Hs ltac:(lia) ltac:(lia) Hb)
      as (s & Hi & Hlen).
    pose proof (builtin_chain_normal_form lib Hlib d s Hacc) as Hsan.
    assert (Ht : (if has_trim d then u_trim s else s) = []).
    { destruct (if has_trim d then u_trim s else s) as [|c t]; [reflexivity|].
      cbn [List.length] in Hlen. lia. }
    rewrite Ht in Hsan.
    assert (Hcf : case_fn (d_sans d) [] = []).
    { unfold case_fn. destruct (has_lower (d_sans d)); [reflexivity|].
      destruct (has_upper (d_sans d)); reflexivity. }
    rewrite Hcf in Hsan.
    assert (Hvalid : spec_valid lib d (VS []) = true).
    { apply (str_len_valid lib d vs 0 0 [] Hf Hv Hk Hdup Hs). cbn [List.length]. lia. }
    assert (Hc : comparable d (spec_sanitize lib d (VS s)) = true)
      by (unfold comparable; rewrite Hf; reflexivity).
    assert (Htn : d_try_new lib d (VS s) = Ok (VS [])).
    { apply (try_new_ok_iff_spec lib d (VS s) (VS []) Hc). rewrite Hsan.
      split; [reflexivity | exact Hvalid]. }
    exists (VS []). split; [|exact Hvalid].
    unfold arb_str. rewrite Hf, Hv, Hi, Htn. reflexivity.
  Qed.

  (* an empty range: int_in_range asserts start <= end *)
  Lemma arb_str_empty_range_panics (d : decl) (vs : list validator) (mn mx : Z) (bs : bytes) :
    d_family d = FStr -> d_validation d = Some (RVStandard vs) ->
    str_spec d = (mn, mx) -> mx < mn -> arb_str lib d bs = OPanic.
  Proof.
    intros Hf Hv Hs Hlt. unfold arb_str. rewrite Hf, Hv. unfold arb_str_inner. rewrite Hs.
    unfold int_in_range. destruct (mx <? mn) eqn:E; [reflexivity | lia].
  Qed.

  (* ==================================================================================== *)
  (* 4. Soundness                                                                         *)
  (* ==================================================================================== *)

  Lemma decide_inv (d : decl) (r : str_verdict) :
    arb_str_decide d = r -> r <> SVUnknown ->
    exists vs, d_family d = FStr /\ d_validation d = Some (RVStandard vs) /\
               arb_str_decide_std d vs = r.
  Proof.
    unfold arb_str_decide. intros H Hr.
    destruct (d_family d); try (subst r; congruence).
    destruct (d_validation d) as [[vs|w e]|]; try (subst r; congruence).
    exists vs. auto.
  Qed.

  (* S1 *)
  Theorem arb_str_decide_total_sound (d : decl) (bs : bytes) :
    arb_str_decide d = SVTotal -> bytes_ok bs = true ->
    exists v, arb_str lib d bs = OOk v /\ spec_valid lib d v = true.
  Proof.
    intros H Hb.
    destruct (decide_inv d SVTotal H ltac:(discriminate)) as (vs & Hf & Hv & Hstd).
    unfold arb_str_decide_std in Hstd. destruct (str_spec d) as [mn mx] eqn:Hs.
    destruct (mx <? mn) eqn:E0; [discriminate Hstd|].
    destruct (dec_plain_sans (d_sans d)) eqn:Hplain.
    - destruct (forallb dec_gen_validator vs && negb (has_dup vkind_eqb (map vkind_of vs))
                && (0 <=? mn) && (mn <=? mx) && (mx - mn <=? 2 ^ 64 - 1)) eqn:Hc;
        [|discriminate Hstd].
      repeat (apply andb_true_iff in Hc; let H' := fresh "Hc" in destruct Hc as [Hc H']).
      apply negb_true_iff in Hc3.
      apply (arb_str_valid lib (proj1 Hlib) d vs mn mx bs Hf Hv Hc Hplain Hc3 Hs); [lia | lia | exact Hb].
    - destruct (dec_accepted_chain (d_sans d) && (dec_has_lower (d_sans d) || dec_has_upper (d_sans d)))
        eqn:Hcase; [|discriminate Hstd].
      apply andb_true_iff in Hcase. destruct Hcase as [Hacc _].
      destruct (forallb dec_min_validator vs) eqn:Hmin.
      + exact (arb_str_builtin_min_valid lib Hlib d vs bs Hf Hv Hmin Hacc Hb).
      + destruct (first_max d vs); [|discriminate Hstd].
        destruct ((1 <=? mx) && (mx <=? 2 ^ 64 - 1) && (0 <=? mn) && (mn <=? mx)); [discriminate Hstd|].
        destruct ((mn =? 0) && (mx =? 0) && forallb dec_gen_validator vs
                  && negb (has_dup vkind_eqb (map vkind_of vs))) eqn:Hc; [|discriminate Hstd].
        repeat (apply andb_true_iff in Hc; let H' := fresh "Hc" in destruct Hc as [Hc H']).
        apply negb_true_iff in Hc0.
        assert (Hs0 : str_spec d = (0, 0)) by (rewrite Hs; f_equal; lia).
        exact (arb_str_case_max0_valid d vs bs Hf Hv Hc1 Hc0 Hacc Hs0 Hb).
  Qed.

  (* S2 *)
  Theorem arb_str_decide_panics_sound (d : decl) (bs : bytes) :
    arb_str_decide d = SVPanicsOn bs ->
    arb_str lib d bs = OPanic /\ bytes_ok bs = true.
  Proof.
    intros H.
    destruct (decide_inv d (SVPanicsOn bs) H ltac:(discriminate)) as (vs & Hf & Hv & Hstd).
    unfold arb_str_decide_std in Hstd. destruct (str_spec d) as [mn mx] eqn:Hs.
    destruct (mx <? mn) eqn:E0.
    - injection Hstd as <-. split; [|reflexivity].
      apply (arb_str_empty_range_panics d vs mn mx [] Hf Hv Hs). lia.
    - destruct (dec_plain_sans (d_sans d)) eqn:Hplain.
      + destruct (forallb dec_gen_validator vs && negb (has_dup vkind_eqb (map vkind_of vs))
                  && (0 <=? mn) && (mn <=? mx) && (mx - mn <=? 2 ^ 64 - 1)); discriminate Hstd.
      + destruct (dec_accepted_chain (d_sans d) && (dec_has_lower (d_sans d) || dec_has_upper (d_sans d)))
          eqn:Hcase; [|discriminate Hstd].
        apply andb_true_iff in Hcase. destruct Hcase as [Hacc Hlu].
        destruct (forallb dec_min_validator vs) eqn:Hmin; [discriminate Hstd|].
        destruct (first_max d vs) as [m|] eqn:Hm; [|discriminate Hstd].
        destruct ((1 <=? mx) && (mx <=? 2 ^ 64 - 1) && (0 <=? mn) && (mn <=? mx)) eqn:Hc;
          [|destruct ((mn =? 0) && (mx =? 0) && forallb dec_gen_validator vs
                      && negb (has_dup vkind_eqb (map vkind_of vs))); discriminate Hstd].
        injection Hstd as <-.
        repeat (apply andb_true_iff in Hc; let H' := fresh "Hc" in destruct Hc as [Hc H']).
        apply (arb_str_case_max_panics_gen d vs mn mx m Hf Hv Hacc Hlu Hs Hm); lia.
  Qed.

  (* from the surface declaration *)
  Theorem arb_str_decide_sd_total_sound (ft : features) (sd : sdecl) (bs : bytes) :
    arb_str_decide_sd ft sd = SVTotal -> bytes_ok bs = true ->
    exists d, macro_verdict ft sd = Accept d /\
              exists v, arb_str lib d bs = OOk v /\ spec_valid lib d v = true.
  Proof.
    unfold arb_str_decide_sd. intros H Hb.
    destruct (macro_verdict ft sd) as [d|c]; [|discriminate H].
    exists d. split; [reflexivity | exact (arb_str_decide_total_sound d bs H Hb)].
  Qed.

  Theorem arb_str_decide_sd_panics_sound (ft : features) (sd : sdecl) (bs : bytes) :
    arb_str_decide_sd ft sd = SVPanicsOn bs ->
    exists d, macro_verdict ft sd = Accept d /\ arb_str lib d bs = OPanic /\ bytes_ok bs = true.
  Proof.
    unfold arb_str_decide_sd. intros H.
    destruct (macro_verdict ft sd) as [d|c]; [|discriminate H].
    exists d. split; [reflexivity | exact (arb_str_decide_panics_sound d bs H)].
  Qed.
End WithLib.

(* the concrete library of the runner is a Unicode library *)
Lemma the_lib_unicode (d : decl) : unicode_lib (the_lib d).
Proof. repeat split. Qed.

(* S1 / S2 for the library the runner uses: no hypothesis left *)
Corollary arb_str_decide_total_the_lib (d : decl) (bs : bytes) :
  arb_str_decide d = SVTotal -> bytes_ok bs = true ->
  exists v, arb_str (the_lib d) d bs = OOk v /\ spec_valid (the_lib d) d v = true.
Proof. exact (arb_str_decide_total_sound (the_lib d) (the_lib_unicode d) d bs). Qed.

Corollary arb_str_decide_panics_the_lib (d : decl) (bs : bytes) :
  arb_str_decide d = SVPanicsOn bs ->
  arb_str (the_lib d) d bs = OPanic /\ bytes_ok bs = true.
Proof. exact (arb_str_decide_panics_sound (the_lib d) (the_lib_unicode d) d bs). Qed.

(* ====================================================================================== *)
(* 5. S3: examples                                                                        *)
(* ====================================================================================== *)

Definition sdec_ex (ss : list sanitizer) (vs : list validator) : decl :=
  {| d_family := FStr; d_name := "T"%string; d_vis := "pub"%string; d_generics := []; d_sans := ss;
     d_validation := Some (RVStandard vs); d_new_unchecked := false; d_const_fn := false;
     d_default := None; d_traits := [TrArbitrary]; d_env := [] |}.

(* sanitize(trim), validate(len_char_min = 2, len_char_max = 5) *)
Example decide_trim_min_max_total :
  arb_str_decide (sdec_ex [STrim] [VLenCharMin (BLit 2); VLenCharMax (BLit 5)]) = SVTotal.
Proof. vm_compute. reflexivity. Qed.

(* no sanitizer, validate(not_empty, len_char_max = 10) *)
Example decide_plain_total :
  arb_str_decide (sdec_ex [] [VNotEmpty; VLenCharMax (BLit 10)]) = SVTotal.
Proof. vm_compute. reflexivity. Qed.

(* sanitize(uppercase), validate(len_char_max = 3): byte 3 picks the target 3, then three times
   U+00DF; "ßßß" upper-cases to "SSSSSS" *)
Example decide_upper_max3_panics :
  let d := sdec_ex [SUppercase] [VLenCharMax (BLit 3)] in
  let w := [3; 223; 0; 0; 0; 223; 0; 0; 0; 223; 0; 0; 0] in
  arb_str_decide d = SVPanicsOn w /\ bytes_ok w = true /\ arb_str (the_lib d) d w = OPanic.
Proof. vm_compute. repeat split; reflexivity. Qed.

(* sanitize(trim, lowercase), validate(len_char_min = 2, len_char_max = 2): mn = mx, no byte
   is spent on the length; two times U+0130 *)
Example decide_lower_fixed2_panics :
  let d := sdec_ex [STrim; SLowercase] [VLenCharMin (BLit 2); VLenCharMax (BLit 2)] in
  let w := [48; 1; 0; 0; 48; 1; 0; 0] in
  arb_str_decide d = SVPanicsOn w /\ bytes_ok w = true /\ arb_str (the_lib d) d w = OPanic.
Proof. vm_compute. repeat split; reflexivity. Qed.

(* a two-byte length: sanitize(lowercase, trim), validate(len_char_max = 300) *)
Example decide_lower_max300_panics :
  let d := sdec_ex [SLowercase; STrim] [VLenCharMax (BLit 300)] in
  exists w, arb_str_decide d = SVPanicsOn w /\ firstn 6 w = [1; 44; 48; 1; 0; 0] /\
            List.length w = 1202%nat /\ arb_str (the_lib d) d w = OPanic.
Proof. exists (str_case_witness true 0 300). vm_compute. repeat split; reflexivity. Qed.

(* sanitize(lowercase), validate(not_empty): decided from the declaration alone *)
Example decide_lower_not_empty_total :
  arb_str_decide (sdec_ex [SLowercase] [VNotEmpty]) = SVTotal.
Proof. vm_compute. reflexivity. Qed.

Example decide_upper_trim_min_total :
  arb_str_decide (sdec_ex [SUppercase; STrim] [VNotEmpty; VLenCharMin (BLit 2)]) = SVTotal.
Proof. vm_compute. reflexivity. Qed.

(* len_char_min = 5, len_char_max = 3: every input panics, the empty one is reported *)
Example decide_empty_range_panics :
  let d := sdec_ex [] [VLenCharMin (BLit 5); VLenCharMax (BLit 3)] in
  arb_str_decide d = SVPanicsOn [] /\ arb_str (the_lib d) d [] = OPanic.
Proof. vm_compute. split; reflexivity. Qed.

(* a case sanitizer with len_char_max = 0: only "" is generated *)
Example decide_upper_max0_total :
  arb_str_decide (sdec_ex [SUppercase] [VLenCharMax (BLit 0)]) = SVTotal.
Proof. vm_compute. reflexivity. Qed.

(* not answered: duplicated len_char_max (see [arb_str_dup_max_panics]), a custom sanitizer,
   a regex *)
Example decide_unknown :
  arb_str_decide dup_max_decl = SVUnknown /\
  arb_str_decide (sdec_ex [SWith {| fn_id := 1; fn_form := FPath |}] [VLenCharMax (BLit 3)]) = SVUnknown /\
  arb_str_decide (sdec_ex [] [VRegex (RLit [97%N])]) = SVUnknown.
Proof. vm_compute. repeat split; reflexivity. Qed.

Print Assumptions arb_str_decide_total_sound.
Print Assumptions arb_str_decide_panics_sound.
