(* Idempotence facts for the Unicode model of trim / to_lowercase /
   to_uppercase.  Facts about the generated tables are established by
   computation over the table ENTRIES and lifted to every code point with
   "absent from the table => identity" ([lower1_spec] / [upper1_spec]), so the
   final theorems hold for every [list N]. *)
From Coq Require Import NArith List Bool Lia.
From NV.Unicode Require Import UnicodeData UStr.
Import ListNotations.
Local Open Scope N_scope.

(* ------------------------------------------------------------------ *)
(* Boolean equality on strings                                         *)

Fixpoint leqb (a b : list N) : bool :=
  match a, b with
  | [], [] => true
  | x :: a', y :: b' => (x =? y) && leqb a' b'
  | _, _ => false
  end.

Lemma leqb_eq : forall a b, leqb a b = true -> a = b.
Proof.
  induction a as [|x a IH]; destruct b as [|y b]; simpl; intros H;
    try discriminate; auto.
  apply andb_true_iff in H. destruct H as [H1 H2].
  apply N.eqb_eq in H1. subst. f_equal. auto.
Qed.

Lemma leqb_refl : forall a, leqb a a = true.
Proof.
  induction a; simpl; auto. rewrite N.eqb_refl. auto.
Qed.

(* ------------------------------------------------------------------ *)
(* Early-exit range scan = plain range membership on sorted lists      *)

Fixpoint sortedb_from (b : N) (rs : list (N * N)) : bool :=
  match rs with
  | [] => true
  | r :: rest =>
      (b <=? fst r) && (fst r <=? snd r) && sortedb_from (N.succ (snd r)) rest
  end.

Lemma in_ranges_below :
  forall rs b c, sortedb_from b rs = true -> c < b -> in_ranges rs c = false.
Proof.
  unfold in_ranges. induction rs as [|r rs IH]; intros b c H Hc; simpl; auto.
  simpl in H. apply andb_true_iff in H. destruct H as [H H3].
  apply andb_true_iff in H. destruct H as [H1 H2].
  apply N.leb_le in H1. apply N.leb_le in H2.
  rewrite (IH (N.succ (snd r)) c H3) by lia.
  unfold in_range. destruct (N.leb_spec (fst r) c); simpl; auto. lia.
Qed.

Lemma in_ranges_sorted_ok :
  forall rs b c, sortedb_from b rs = true -> in_ranges_sorted rs c = in_ranges rs c.
Proof.
  induction rs as [|r rs IH]; intros b c H; simpl; auto.
  simpl in H. apply andb_true_iff in H. destruct H as [H H3].
  apply andb_true_iff in H. destruct H as [H1 H2].
  apply N.leb_le in H1. apply N.leb_le in H2.
  unfold in_range. destruct (N.ltb_spec c (fst r)) as [Hlt|Hge].
  - destruct (N.leb_spec (fst r) c); try lia. simpl.
    symmetry. apply (in_ranges_below rs (N.succ (snd r))); auto. lia.
  - destruct (N.leb_spec (fst r) c); try lia. simpl.
    destruct (N.leb_spec c (snd r)); simpl; auto.
    apply (IH (N.succ (snd r))). exact H3.
Qed.

Lemma u_is_ws_spec : forall c, u_is_ws c = in_ranges ws_ranges c.
Proof.
  intros c. apply (in_ranges_sorted_ok ws_ranges 0). vm_compute. reflexivity.
Qed.

Lemma u_case_ignorable_spec :
  forall c, u_case_ignorable c = in_ranges ignorable_ranges c.
Proof.
  intros c. apply (in_ranges_sorted_ok ignorable_ranges 0). vm_compute. reflexivity.
Qed.

Lemma u_cased_spec : forall c, u_cased c = in_ranges cased_ranges c.
Proof.
  intros c. apply (in_ranges_sorted_ok cased_ranges 0). vm_compute. reflexivity.
Qed.

(* ------------------------------------------------------------------ *)
(* Trie = assoc                                                        *)

Section TrieFacts.
  Context {A : Type}.

  Lemma tget_leaf : forall p, tget (@TLeaf A) p = None.
  Proof. destruct p; reflexivity. Qed.

  Lemma tget_tset_same : forall p (t : trie A) v, tget (tset t p v) p = Some v.
  Proof.
    induction p; intros t v; destruct t; simpl; auto.
  Qed.

  Lemma tget_tset_other :
    forall p q (t : trie A) v, p <> q -> tget (tset t p v) q = tget t q.
  Proof.
    induction p; intros q t v Hne; destruct q; destruct t; simpl;
      try reflexivity; try congruence;
      try (rewrite IHp by congruence; try rewrite tget_leaf; reflexivity);
      try (rewrite tget_leaf; reflexivity).
  Qed.

  Lemma tkey_inj : forall a b, tkey a = tkey b -> a = b.
  Proof.
    unfold tkey. intros a b H.
    rewrite <- (N.pos_pred_succ a), <- (N.pos_pred_succ b), H. reflexivity.
  Qed.

  Lemma nget_of_list :
    forall (l : list (N * A)) c, nget (trie_of_list l) c = assoc c l.
  Proof.
    unfold nget. induction l as [|[k v] l IH]; intros c; simpl.
    - reflexivity.
    - destruct (N.eqb_spec c k) as [->|Hne].
      + apply tget_tset_same.
      + rewrite tget_tset_other; auto.
        intros H. apply tkey_inj in H. congruence.
  Qed.

  Lemma assoc_In : forall (l : list (N * A)) c v, assoc c l = Some v -> In (c, v) l.
  Proof.
    induction l as [|[k w] l IH]; simpl; intros c v H; try discriminate.
    destruct (N.eqb_spec c k) as [->|Hne].
    - inversion H; subst; auto.
    - right; auto.
  Qed.
End TrieFacts.

(* The trie lookups coincide with a first-match linear scan of the tables. *)
Lemma lower1_assoc :
  forall c, lower1 c = match assoc c lower_table with Some v => v | None => [c] end.
Proof. intros c. unfold lower1, lower_trie. rewrite nget_of_list. reflexivity. Qed.

Lemma upper1_assoc :
  forall c, upper1 c = match assoc c upper_table with Some v => v | None => [c] end.
Proof. intros c. unfold upper1, upper_trie. rewrite nget_of_list. reflexivity. Qed.

Lemma lower1_spec :
  forall c, lower1 c = [c] \/ exists v, In (c, v) lower_table /\ lower1 c = v.
Proof.
  intros c. rewrite lower1_assoc.
  destruct (assoc c lower_table) as [v|] eqn:E; auto.
  right. exists v. split; auto. apply assoc_In; auto.
Qed.

Lemma upper1_spec :
  forall c, upper1 c = [c] \/ exists v, In (c, v) upper_table /\ upper1 c = v.
Proof.
  intros c. rewrite upper1_assoc.
  destruct (assoc c upper_table) as [v|] eqn:E; auto.
  right. exists v. split; auto. apply assoc_In; auto.
Qed.

(* ------------------------------------------------------------------ *)
(* trim                                                                *)

Definition hd_ok (s : list N) : Prop :=
  match s with [] => True | c :: _ => u_is_ws c = false end.

(* [trimmed s]: s neither starts nor ends with white space. *)
Definition trimmed (s : list N) : Prop := hd_ok s /\ hd_ok (rev s).

Lemma hd_ok_app : forall a b, hd_ok (a ++ b) -> hd_ok a.
Proof. destruct a; simpl; auto. Qed.

Lemma hd_ok_app_l : forall a b, a <> [] -> hd_ok a -> hd_ok (a ++ b).
Proof. destruct a; simpl; auto. congruence. Qed.

Lemma drop_ws_hd_ok : forall s, hd_ok (drop_ws s).
Proof.
  induction s as [|c s IH]; simpl; auto.
  destruct (u_is_ws c) eqn:E; simpl; auto.
Qed.

Lemma drop_ws_id : forall s, hd_ok s -> drop_ws s = s.
Proof. destruct s; simpl; auto. intros H. rewrite H. reflexivity. Qed.

Lemma drop_ws_suffix : forall s, exists p, s = p ++ drop_ws s.
Proof.
  induction s as [|c s [p IH]]; simpl.
  - exists []. reflexivity.
  - destruct (u_is_ws c).
    + exists (c :: p). simpl. f_equal. exact IH.
    + exists []. reflexivity.
Qed.

Lemma drop_ws_Forall : forall (P : N -> Prop) s, Forall P s -> Forall P (drop_ws s).
Proof.
  induction 1 as [|c s Hc Hs IH]; simpl; auto.
  destruct (u_is_ws c); auto.
Qed.

Lemma Forall_rev' : forall (P : N -> Prop) s, Forall P s -> Forall P (rev s).
Proof.
  intros P s H. apply Forall_forall. intros x Hx.
  apply in_rev in Hx. revert x Hx. apply Forall_forall. exact H.
Qed.

Lemma trim_end_hd_ok : forall d, hd_ok d -> hd_ok (u_trim_end d).
Proof.
  intros d H. unfold u_trim_end.
  destruct (drop_ws_suffix (rev d)) as [p Hp].
  assert (E : d = rev (drop_ws (rev d)) ++ rev p).
  { rewrite <- rev_app_distr, <- Hp, rev_involutive. reflexivity. }
  rewrite E in H. apply hd_ok_app in H. exact H.
Qed.

Lemma u_trim_trimmed : forall s, trimmed (u_trim s).
Proof.
  intros s. unfold u_trim, u_trim_start. split.
  - apply trim_end_hd_ok. apply drop_ws_hd_ok.
  - unfold u_trim_end. rewrite rev_involutive. apply drop_ws_hd_ok.
Qed.

Lemma u_trim_fix : forall s, trimmed s -> u_trim s = s.
Proof.
  intros s [H1 H2]. unfold u_trim, u_trim_start, u_trim_end.
  rewrite (drop_ws_id s H1), (drop_ws_id (rev s) H2). apply rev_involutive.
Qed.

Lemma u_trim_Forall : forall (P : N -> Prop) s, Forall P s -> Forall P (u_trim s).
Proof.
  intros P s H. unfold u_trim, u_trim_start, u_trim_end.
  apply Forall_rev', drop_ws_Forall, Forall_rev', drop_ws_Forall, H.
Qed.

Theorem u_trim_idem : forall s, u_trim (u_trim s) = u_trim s.
Proof. intros s. apply u_trim_fix, u_trim_trimmed. Qed.
Print Assumptions u_trim_idem.

(* ------------------------------------------------------------------ *)
(* Generic facts on context-sensitive character mappings               *)

Section CtxMap.
  Variable f : list N -> N -> list N -> list N.
  Variable P : N -> Prop.
  (* P-characters are left alone, whatever the context ... *)
  Hypothesis f_fix : forall rb c r, P c -> f rb c r = [c].
  (* ... and every produced character satisfies P. *)
  Hypothesis f_img : forall rb c r, Forall P (f rb c r).

  Lemma ctx_map_fix : forall s rb, Forall P s -> ctx_map f rb s = s.
  Proof.
    induction s as [|c s IH]; intros rb H; simpl; auto.
    inversion H; subst. rewrite f_fix by assumption. simpl. f_equal. auto.
  Qed.

  Lemma ctx_map_img : forall s rb, Forall P (ctx_map f rb s).
  Proof.
    induction s as [|c s IH]; intros rb; simpl; auto.
    apply Forall_app. split; auto.
  Qed.

  Lemma ctx_map_idem :
    forall s rb rb', ctx_map f rb' (ctx_map f rb s) = ctx_map f rb s.
  Proof. intros. apply ctx_map_fix, ctx_map_img. Qed.

  (* Images are never empty, and the image of a non-white-space character
     neither starts nor ends with white space. *)
  Hypothesis f_ne : forall rb c r, f rb c r <> [].
  Hypothesis f_edge :
    forall rb c r, u_is_ws c = false -> trimmed (f rb c r).

  Lemma ctx_map_ne : forall s rb, s <> [] -> ctx_map f rb s <> [].
  Proof.
    destruct s as [|c s]; intros rb H; try congruence. simpl.
    intros E. apply app_eq_nil in E. destruct E as [E _].
    exact (f_ne _ _ _ E).
  Qed.

  Lemma ctx_map_last_ok :
    forall s rb, hd_ok (rev s) -> hd_ok (rev (ctx_map f rb s)).
  Proof.
    induction s as [|c s IH]; intros rb H; simpl; auto.
    rewrite rev_app_distr.
    destruct s as [|d s'].
    - simpl in *. apply (f_edge rb c []). exact H.
    - apply hd_ok_app_l.
      + intros E. apply (f_equal (@rev N)) in E. rewrite rev_involutive in E.
        apply (ctx_map_ne (d :: s') (c :: rb)); [congruence | exact E].
      + apply IH. simpl in H. apply hd_ok_app in H. exact H.
  Qed.

  Lemma ctx_map_trimmed : forall s rb, trimmed s -> trimmed (ctx_map f rb s).
  Proof.
    intros s rb [H1 H2]. split.
    - destruct s as [|c s]; simpl; auto.
      apply hd_ok_app_l; auto. apply f_edge. exact H1.
    - apply ctx_map_last_ok. exact H2.
  Qed.

  Lemma ctx_trim_chain :
    forall s rb rb',
      ctx_map f rb' (u_trim (ctx_map f rb (u_trim s))) = ctx_map f rb (u_trim s).
  Proof.
    intros s rb rb'.
    rewrite (u_trim_fix (ctx_map f rb (u_trim s))).
    - apply ctx_map_idem.
    - apply ctx_map_trimmed, u_trim_trimmed.
  Qed.

  Lemma trim_ctx_chain :
    forall s rb rb',
      u_trim (ctx_map f rb' (u_trim (ctx_map f rb s))) = u_trim (ctx_map f rb s).
  Proof.
    intros s rb rb'.
    rewrite (ctx_map_fix (u_trim (ctx_map f rb s))).
    - apply u_trim_idem.
    - apply u_trim_Forall, ctx_map_img.
  Qed.
End CtxMap.

(* ------------------------------------------------------------------ *)
(* Boolean checkers run over the table entries                         *)

Definition hd_okb (s : list N) : bool :=
  match s with [] => true | c :: _ => negb (u_is_ws c) end.

Definition nonemptyb (s : list N) : bool :=
  match s with [] => false | _ => true end.

Definition trimmedb (s : list N) : bool := hd_okb s && hd_okb (rev s).

Lemma hd_okb_ok : forall s, hd_okb s = true -> hd_ok s.
Proof. destruct s; simpl; auto. intros H. apply negb_true_iff in H. exact H. Qed.

Lemma trimmedb_ok : forall s, trimmedb s = true -> trimmed s.
Proof.
  unfold trimmedb, trimmed. intros s H. apply andb_true_iff in H.
  destruct H; split; apply hd_okb_ok; assumption.
Qed.

Lemma nonemptyb_ok : forall s, nonemptyb s = true -> s <> [].
Proof. destruct s; simpl; congruence. Qed.

(* An image is admissible for key k: non-empty, and trimmed unless k is
   itself white space. *)
Definition edge_okb (k : N) (v : list N) : bool :=
  nonemptyb v && (u_is_ws k || trimmedb v).

Lemma edge_okb_ok :
  forall k v, edge_okb k v = true ->
              v <> [] /\ (u_is_ws k = false -> trimmed v).
Proof.
  unfold edge_okb. intros k v H. apply andb_true_iff in H. destruct H as [H1 H2].
  split. { apply nonemptyb_ok; assumption. }
  intros Hk. rewrite Hk in H2. simpl in H2. apply trimmedb_ok. exact H2.
Qed.

(* ------------------------------------------------------------------ *)
(* Lower case                                                          *)

(* [lowfix c]: c is a fixpoint of lower1 (hence is not SIGMA). *)
Definition lowfix (c : N) : Prop := lower1 c = [c].
Definition lowfixb (c : N) : bool := leqb (lower1 c) [c].

Lemma lowfixb_ok : forall c, lowfixb c = true -> lowfix c.
Proof. intros c H. apply leqb_eq. exact H. Qed.

(* Table facts (computation over the entries). *)
Lemma lower_table_outputs_fixed :
  forallb (fun e => forallb lowfixb (snd e)) lower_table = true.
Proof. vm_compute. reflexivity. Qed.

Lemma lower_table_edges :
  forallb (fun e => edge_okb (fst e) (snd e)) lower_table = true.
Proof. vm_compute. reflexivity. Qed.

Lemma lower_table_no_ws_key :
  forallb (fun e => negb (u_is_ws (fst e))) lower_table = true.
Proof. vm_compute. reflexivity. Qed.

Lemma sigma_facts :
  lower1 SIGMA = [SMALL_SIGMA] /\
  lowfixb SMALL_SIGMA = true /\ lowfixb FINAL_SIGMA = true /\
  u_is_ws SMALL_SIGMA = false /\ u_is_ws FINAL_SIGMA = false /\
  u_is_ws SIGMA = false.
Proof. vm_compute. repeat split; reflexivity. Qed.

Lemma lowfix_not_sigma : forall c, lowfix c -> c <> SIGMA.
Proof.
  unfold lowfix. intros c H E. subst c.
  destruct sigma_facts as [H1 _]. rewrite H1 in H. discriminate H.
Qed.

Lemma lower1_img : forall c, Forall lowfix (lower1 c).
Proof.
  intros c. destruct (lower1_spec c) as [E | [v [Hin E]]].
  - rewrite E. constructor; auto.
  - rewrite E. pose proof lower_table_outputs_fixed as T.
    rewrite forallb_forall in T. specialize (T _ Hin). simpl in T.
    rewrite forallb_forall in T. apply Forall_forall.
    intros x Hx. apply lowfixb_ok. auto.
Qed.

Lemma lower1_edge :
  forall c, lower1 c <> [] /\ (u_is_ws c = false -> trimmed (lower1 c)).
Proof.
  intros c. destruct (lower1_spec c) as [E | [v [Hin E]]]; rewrite E.
  - split; try congruence. intros H. split; simpl; exact H.
  - pose proof lower_table_edges as T.
    rewrite forallb_forall in T. specialize (T _ Hin). simpl in T.
    apply edge_okb_ok. exact T.
Qed.

(* White-space characters are untouched by lower1. *)
Lemma ws_lower1_fixed : forall c, u_is_ws c = true -> lower1 c = [c].
Proof.
  intros c H. destruct (lower1_spec c) as [E | [v [Hin E]]]; auto.
  pose proof lower_table_no_ws_key as T.
  rewrite forallb_forall in T. specialize (T _ Hin). simpl in T.
  rewrite H in T. discriminate T.
Qed.

Lemma lower_img_fix : forall rb c r, lowfix c -> lower_img rb c r = [c].
Proof.
  intros rb c r H. unfold lower_img.
  destruct (N.eqb_spec c SIGMA) as [E|_].
  - exfalso. exact (lowfix_not_sigma c H E).
  - exact H.
Qed.

Lemma lower_img_img : forall rb c r, Forall lowfix (lower_img rb c r).
Proof.
  intros rb c r. unfold lower_img.
  destruct sigma_facts as [_ [H1 [H2 _]]].
  destruct (c =? SIGMA).
  - constructor; auto. destruct (is_word_final rb r); apply lowfixb_ok; assumption.
  - apply lower1_img.
Qed.

Lemma lower_img_ne : forall rb c r, lower_img rb c r <> [].
Proof.
  intros rb c r. unfold lower_img. destruct (c =? SIGMA).
  - discriminate.
  - exact (proj1 (lower1_edge c)).
Qed.

Lemma lower_img_edge :
  forall rb c r, u_is_ws c = false -> trimmed (lower_img rb c r).
Proof.
  intros rb c r H. unfold lower_img.
  destruct sigma_facts as [_ [_ [_ [H1 [H2 _]]]]].
  destruct (c =? SIGMA).
  - destruct (is_word_final rb r); split; simpl; assumption.
  - exact (proj2 (lower1_edge c) H).
Qed.

Lemma u_lower_img : forall s, Forall lowfix (u_lower s).
Proof. intros s. apply ctx_map_img. exact lower_img_img. Qed.

Lemma u_lower_fix : forall s, Forall lowfix s -> u_lower s = s.
Proof. intros s. apply ctx_map_fix. exact lower_img_fix. Qed.

Lemma u_lower_trimmed : forall s, trimmed s -> trimmed (u_lower s).
Proof.
  intros s. apply ctx_map_trimmed.
  - exact lower_img_ne.
  - exact lower_img_edge.
Qed.

Theorem u_lower_idem : forall s, u_lower (u_lower s) = u_lower s.
Proof.
  intros s. unfold u_lower.
  apply (ctx_map_idem lower_img lowfix lower_img_fix lower_img_img).
Qed.
Print Assumptions u_lower_idem.

Theorem trim_lower_chain_idem :
  forall s, u_lower (u_trim (u_lower (u_trim s))) = u_lower (u_trim s).
Proof.
  intros s. unfold u_lower.
  apply (ctx_trim_chain lower_img lowfix lower_img_fix lower_img_img
                        lower_img_ne lower_img_edge).
Qed.
Print Assumptions trim_lower_chain_idem.

Theorem lower_trim_chain_idem :
  forall s, u_trim (u_lower (u_trim (u_lower s))) = u_trim (u_lower s).
Proof.
  intros s. unfold u_lower.
  apply (trim_ctx_chain lower_img lowfix lower_img_fix lower_img_img).
Qed.
Print Assumptions lower_trim_chain_idem.

(* ------------------------------------------------------------------ *)
(* Upper case                                                          *)

Definition upfix (c : N) : Prop := upper1 c = [c].
Definition upfixb (c : N) : bool := leqb (upper1 c) [c].

Lemma upfixb_ok : forall c, upfixb c = true -> upfix c.
Proof. intros c H. apply leqb_eq. exact H. Qed.

Lemma upper_table_outputs_fixed :
  forallb (fun e => forallb upfixb (snd e)) upper_table = true.
Proof. vm_compute. reflexivity. Qed.

Lemma upper_table_edges :
  forallb (fun e => edge_okb (fst e) (snd e)) upper_table = true.
Proof. vm_compute. reflexivity. Qed.

Lemma upper_table_no_ws_key :
  forallb (fun e => negb (u_is_ws (fst e))) upper_table = true.
Proof. vm_compute. reflexivity. Qed.

Lemma upper1_img : forall c, Forall upfix (upper1 c).
Proof.
  intros c. destruct (upper1_spec c) as [E | [v [Hin E]]].
  - rewrite E. constructor; auto.
  - rewrite E. pose proof upper_table_outputs_fixed as T.
    rewrite forallb_forall in T. specialize (T _ Hin). simpl in T.
    rewrite forallb_forall in T. apply Forall_forall.
    intros x Hx. apply upfixb_ok. auto.
Qed.

Lemma upper1_edge :
  forall c, upper1 c <> [] /\ (u_is_ws c = false -> trimmed (upper1 c)).
Proof.
  intros c. destruct (upper1_spec c) as [E | [v [Hin E]]]; rewrite E.
  - split; try congruence. intros H. split; simpl; exact H.
  - pose proof upper_table_edges as T.
    rewrite forallb_forall in T. specialize (T _ Hin). simpl in T.
    apply edge_okb_ok. exact T.
Qed.

Lemma ws_upper1_fixed : forall c, u_is_ws c = true -> upper1 c = [c].
Proof.
  intros c H. destruct (upper1_spec c) as [E | [v [Hin E]]]; auto.
  pose proof upper_table_no_ws_key as T.
  rewrite forallb_forall in T. specialize (T _ Hin). simpl in T.
  rewrite H in T. discriminate T.
Qed.

Definition upper_img (rb : list N) (c : N) (r : list N) : list N := upper1 c.

Lemma u_upper_ctx : forall s rb, u_upper s = ctx_map upper_img rb s.
Proof.
  unfold u_upper. induction s as [|c s IH]; intros rb.
  - reflexivity.
  - cbn [flat_map ctx_map]. rewrite (IH (c :: rb)). reflexivity.
Qed.

Lemma upper_img_fix : forall rb c r, upfix c -> upper_img rb c r = [c].
Proof. intros rb c r H. exact H. Qed.

Lemma upper_img_img : forall rb c r, Forall upfix (upper_img rb c r).
Proof. intros rb c r. apply upper1_img. Qed.

Lemma upper_img_ne : forall rb c r, upper_img rb c r <> [].
Proof. intros rb c r. exact (proj1 (upper1_edge c)). Qed.

Lemma upper_img_edge :
  forall rb c r, u_is_ws c = false -> trimmed (upper_img rb c r).
Proof. intros rb c r. exact (proj2 (upper1_edge c)). Qed.

Lemma u_upper_img : forall s, Forall upfix (u_upper s).
Proof. intros s. rewrite (u_upper_ctx s []). apply ctx_map_img. exact upper_img_img. Qed.

Lemma u_upper_fix : forall s, Forall upfix s -> u_upper s = s.
Proof. intros s. rewrite (u_upper_ctx s []). apply ctx_map_fix. exact upper_img_fix. Qed.

Lemma u_upper_trimmed : forall s, trimmed s -> trimmed (u_upper s).
Proof.
  intros s. rewrite (u_upper_ctx s []). apply ctx_map_trimmed.
  - exact upper_img_ne.
  - exact upper_img_edge.
Qed.

Theorem u_upper_idem : forall s, u_upper (u_upper s) = u_upper s.
Proof. intros s. apply u_upper_fix, u_upper_img. Qed.
Print Assumptions u_upper_idem.

Theorem trim_upper_chain_idem :
  forall s, u_upper (u_trim (u_upper (u_trim s))) = u_upper (u_trim s).
Proof.
  intros s.
  rewrite (u_upper_ctx (u_trim s) []).
  rewrite (u_upper_ctx (u_trim (ctx_map upper_img [] (u_trim s))) []).
  apply (ctx_trim_chain upper_img upfix upper_img_fix upper_img_img
                        upper_img_ne upper_img_edge).
Qed.
Print Assumptions trim_upper_chain_idem.

Theorem upper_trim_chain_idem :
  forall s, u_trim (u_upper (u_trim (u_upper s))) = u_trim (u_upper s).
Proof.
  intros s.
  rewrite (u_upper_ctx s []).
  rewrite (u_upper_ctx (u_trim (ctx_map upper_img [] s)) []).
  apply (trim_ctx_chain upper_img upfix upper_img_fix upper_img_img).
Qed.
Print Assumptions upper_trim_chain_idem.
