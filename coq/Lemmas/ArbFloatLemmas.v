(* The float generator's 'outer loop always finds its base value: bit pattern 0 (+0.0) meets
   every base condition, the exhausted input yields 0, and every draw from a non-empty input
   consumes at least one byte. *)
From NV Require Import Base.Util Base.IntTy Base.FloatBits Base.Float Base.Expr
     Macro.Surface Macro.Ast Sem.Guard Sem.Value Sem.Eval Sem.Bytes Sem.ArbFloat.
Local Open Scope Z_scope.

(* ---- (a) arb_uint on exhausted / non-empty input -------------------------------------- *)

Lemma take_pad_nil (n : nat) : take_pad n [] = (repeat 0 n, []).
Proof. induction n as [|n IH]; [reflexivity|]. cbn [take_pad repeat]. rewrite IH. reflexivity. Qed.

Lemma le_value_zeros (n : nat) : le_value (repeat 0 n) = 0.
Proof. induction n as [|n IH]; [reflexivity|]. cbn [repeat le_value]. rewrite IH. reflexivity. Qed.

Lemma arb_uint_nil (n : nat) : arb_uint n [] = (0, []).
Proof. unfold arb_uint. rewrite take_pad_nil, le_value_zeros. reflexivity. Qed.

Lemma take_pad_rest (n : nat) : forall bs, snd (take_pad n bs) = skipn n bs.
Proof.
  induction n as [|n IH]; intros bs; [reflexivity|]. cbn [take_pad].
  destruct bs as [|b r].
  - specialize (IH []). destruct (take_pad n []) as [l r']. cbn in *. rewrite IH. apply skipn_nil.
  - specialize (IH r). destruct (take_pad n r) as [l r']. exact IH.
Qed.

Lemma arb_uint_rest (n : nat) (bs : bytes) : snd (arb_uint n bs) = skipn n bs.
Proof. unfold arb_uint. rewrite <- take_pad_rest. destruct (take_pad n bs); reflexivity. Qed.

Lemma arb_uint_rest_le (n : nat) (bs : bytes) : (List.length (snd (arb_uint n bs)) <= List.length bs)%nat.
Proof. rewrite arb_uint_rest, skipn_length. lia. Qed.

Lemma arb_uint_shrinks (n : nat) (bs : bytes) :
  (0 < n)%nat -> bs <> [] -> (List.length (snd (arb_uint n bs)) < List.length bs)%nat.
Proof.
  intros Hn Hbs. rewrite arb_uint_rest, skipn_length.
  destruct bs; [congruence|]. cbn [List.length]. lia.
Qed.

(* ---- (b) +0.0 meets every base condition ---------------------------------------------- *)

Lemma base_cond_zero (is64 : bool) (k : base_kind) : base_cond is64 k 0 = true.
Proof. destruct is64, k; vm_compute; reflexivity. Qed.

(* ---- (c) totality --------------------------------------------------------------------- *)

Lemma mangle_sound (is64 : bool) (k : base_kind) (steps : nat) : forall (i : nat) (l : list Z) (y : Z),
  mangle is64 k steps i l = Some y -> base_cond is64 k y = true.
Proof.
  induction steps as [|s IH]; intros i l y H; [discriminate|].
  cbn [mangle] in H.
  match type of H with
  | (if base_cond _ _ ?be then _ else _) = _ => destruct (base_cond is64 k be) eqn:E1
  end.
  - injection H as <-. exact E1.
  - match type of H with
    | (if base_cond _ _ ?ne then _ else _) = _ => destruct (base_cond is64 k ne) eqn:E2
    end.
    + injection H as <-. exact E2.
    + eapply IH. exact H.
Qed.

Lemma fsize_pos (is64 : bool) : (0 < fsize is64)%nat.
Proof. destruct is64; cbn; lia. Qed.

Theorem base_value_total (is64 : bool) (k : base_kind) : forall (bs : bytes) (fuel : nat),
  (List.length bs < fuel)%nat ->
  exists x r, base_value is64 k fuel bs = Some (x, r) /\ base_cond is64 k x = true.
Proof.
  intros bs fuel. revert bs. induction fuel as [|f IH]; intros bs Hlen; [lia|].
  cbn [base_value].
  destruct (arb_uint (fsize is64) bs) as [x r] eqn:Ha.
  destruct (base_cond is64 k x) eqn:Hc.
  - exists x, r. split; [reflexivity | exact Hc].
  - destruct (mangle is64 k 1000 0 (be_bytes_of (fsize is64) x)) as [y|] eqn:Hm.
    + exists y, r. split; [reflexivity|]. eapply mangle_sound. exact Hm.
    + apply IH.
      destruct bs as [|b bs'].
      * rewrite arb_uint_nil in Ha. injection Ha as <- <-.
        rewrite base_cond_zero in Hc. discriminate.
      * pose proof (arb_uint_shrinks (fsize is64) (b :: bs') (fsize_pos is64) ltac:(discriminate)) as Hs.
        rewrite Ha in Hs. cbn [snd] in Hs. lia.
Qed.


(* the remaining input never grows *)
Lemma base_value_rest_le (is64 : bool) (k : base_kind) : forall (fuel : nat) (bs : bytes) (x : Z) (r : bytes),
  base_value is64 k fuel bs = Some (x, r) -> (List.length r <= List.length bs)%nat.
Proof.
  induction fuel as [|f IH]; intros bs x r H; [discriminate|].
  cbn [base_value] in H.
  pose proof (arb_uint_rest_le (fsize is64) bs) as Hle.
  destruct (arb_uint (fsize is64) bs) as [x0 r0]. cbn [snd] in Hle.
  destruct (base_cond is64 k x0).
  - injection H as <- <-. exact Hle.
  - destruct (mangle is64 k 1000 0 (be_bytes_of (fsize is64) x0)).
    + injection H as <- <-. exact Hle.
    + apply IH in H. lia.
Qed.

(* ---- (d) the fuel the model uses is enough --------------------------------------------- *)

Corollary base_value_model_fuel (is64 : bool) (k : base_kind) (bs : bytes) :
  exists x r, base_value is64 k (List.length bs + 2) bs = Some (x, r) /\ base_cond is64 k x = true.
Proof. apply base_value_total. lia. Qed.

Corollary base_value_model_fuel_some (is64 : bool) (k : base_kind) (bs : bytes) :
  base_value is64 k (List.length bs + 2) bs <> None.
Proof. destruct (base_value_model_fuel is64 k bs) as (x & r & H & _). congruence. Qed.


(* hence the generator's inner value is always produced: the model's OPanic for "out of fuel"
   is unreachable *)
Corollary arb_float_inner_some (is64 : bool) (d : decl) (vs : list validator) (bs : bytes) :
  arb_float_inner is64 d vs bs <> None.
Proof.
  unfold arb_float_inner.
  destruct (base_value_model_fuel is64 (base_kind_of vs) bs) as (x & r & H & _).
  destruct (fboundaries d vs None None) as [[lo|] [hi|]].
  - destruct (from0to1 is64 bs). discriminate.
  - rewrite H. discriminate.
  - rewrite H. discriminate.
  - rewrite H. discriminate.
Qed.
