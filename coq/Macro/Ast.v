(* The macro's internal model of a declaration after parsing (mirrors common/models.rs,
   */models.rs): guards with ordered sanitizers and validators, flags, derive list. *)
From NV Require Import Base.Util Base.IntTy Base.Expr Macro.Surface.
Local Open Scope string_scope.

Inductive family :=
| FStr
| FInt (tn : string) (t : int_ty)
| FFloat (is64 : bool)
| FAny (tyname : string).

(* a bound known at expansion time (integer value, float bit pattern, usize length)
   or an expression spliced verbatim *)
Inductive bound := BLit (v : Z) | BExpr (e : expr).

Inductive regexdef := RLit (s : list N) | RPath (p : string).

Inductive sanitizer := STrim | SLowercase | SUppercase | SWith (f : fnref).

Inductive validator :=
| VGreater (b : bound) | VGreaterOrEqual (b : bound) | VLess (b : bound) | VLessOrEqual (b : bound)
| VPredicate (f : fnref) | VFinite
| VLenCharMin (b : bound) | VLenCharMax (b : bound) | VNotEmpty | VRegex (r : regexdef).

Inductive vkind := KGreater | KGreaterOrEqual | KLess | KLessOrEqual | KPredicate | KFinite
                 | KLenCharMin | KLenCharMax | KNotEmpty | KRegex.
Definition vkind_of (v : validator) : vkind :=
  match v with
  | VGreater _ => KGreater | VGreaterOrEqual _ => KGreaterOrEqual | VLess _ => KLess
  | VLessOrEqual _ => KLessOrEqual | VPredicate _ => KPredicate | VFinite => KFinite
  | VLenCharMin _ => KLenCharMin | VLenCharMax _ => KLenCharMax | VNotEmpty => KNotEmpty
  | VRegex _ => KRegex
  end.
Definition vkind_eqb (a b : vkind) : bool :=
  match a, b with
  | KGreater, KGreater | KGreaterOrEqual, KGreaterOrEqual | KLess, KLess
  | KLessOrEqual, KLessOrEqual | KPredicate, KPredicate | KFinite, KFinite
  | KLenCharMin, KLenCharMin | KLenCharMax, KLenCharMax | KNotEmpty, KNotEmpty
  | KRegex, KRegex => true
  | _, _ => false
  end.

Inductive skind := KTrim | KLowercase | KUppercase | KWith.
Definition skind_of (s : sanitizer) : skind :=
  match s with STrim => KTrim | SLowercase => KLowercase | SUppercase => KUppercase | SWith _ => KWith end.
Definition skind_eqb (a b : skind) : bool :=
  match a, b with
  | KTrim, KTrim | KLowercase, KLowercase | KUppercase, KUppercase | KWith, KWith => true
  | _, _ => false
  end.

Inductive trait :=
| TrDebug | TrClone | TrCopy | TrPartialEq | TrEq | TrPartialOrd | TrOrd | TrFromStr | TrAsRef
| TrFrom | TrTryFrom | TrInto | TrHash | TrBorrow | TrDisplay | TrDefault | TrDeref
| TrIntoIterator | TrSerialize | TrDeserialize | TrJsonSchema | TrArbitrary.

Definition trait_id (t : trait) : nat :=
  match t with
  | TrDebug => 0 | TrClone => 1 | TrCopy => 2 | TrPartialEq => 3 | TrEq => 4 | TrPartialOrd => 5
  | TrOrd => 6 | TrFromStr => 7 | TrAsRef => 8 | TrFrom => 9 | TrTryFrom => 10 | TrInto => 11
  | TrHash => 12 | TrBorrow => 13 | TrDisplay => 14 | TrDefault => 15 | TrDeref => 16
  | TrIntoIterator => 17 | TrSerialize => 18 | TrDeserialize => 19 | TrJsonSchema => 20
  | TrArbitrary => 21
  end%nat.
Definition trait_eqb (a b : trait) : bool := Nat.eqb (trait_id a) (trait_id b).
Definition has_trait (t : trait) (l : list trait) : bool := existsb (trait_eqb t) l.

Inductive raw_validation :=
| RVStandard (vs : list validator)
| RVCustom (w : fnref) (err : string).

Record parsed := {
  p_sans : list sanitizer;
  p_validation : option raw_validation;
  p_new_unchecked : bool;
  p_const_fn : bool;
  p_default : option expr;
  p_derives : list trait
}.

(* a declaration the macro accepted: exactly what is generated *)
Record decl := {
  d_family : family;
  d_name : string;
  d_vis : string;
  d_generics : list gparam;
  d_sans : list sanitizer;
  d_validation : option raw_validation;
  d_new_unchecked : bool;
  d_const_fn : bool;
  d_default : option expr;
  d_traits : list trait;
  d_env : env
}.

Definition has_validation (d : decl) : bool :=
  match d_validation d with Some _ => true | None => false end.
Definition standard_validators (d : decl) : list validator :=
  match d_validation d with Some (RVStandard vs) => vs | _ => [] end.

(* verdict of a compilation stage *)
Inductive verdict (X : Type) :=
| Accept (x : X)
| Reject (class : string).
Arguments Accept {X} x.
Arguments Reject {X} class.

Definition vbind {X Y} (v : verdict X) (f : X -> verdict Y) : verdict Y :=
  match v with Accept x => f x | Reject c => Reject c end.
Notation "'let!' x := m 'in' k" := (vbind m (fun x => k))
  (at level 200, x pattern, m at level 100, k at level 200, right associativity).

Fixpoint vmap {X Y} (f : X -> verdict Y) (l : list X) : verdict (list Y) :=
  match l with
  | [] => Accept []
  | a :: l' => let! b := f a in let! bs := vmap f l' in Accept (b :: bs)
  end.
