(* L1a: the attribute and item parsers (mirrors common/parse/mod.rs, common/parse/meta.rs,
   common/parse/derive_trait.rs, */parse.rs).  Items of a comma-terminated list never contain
   a top-level comma, so [parse_terminated] is modelled as: split at commas, allow one
   trailing comma, every segment must be consumed entirely by the item parser. *)
From NV Require Import Base.Util Base.IntTy Base.FloatBits Base.Expr Macro.Surface Macro.Ast.
Local Open Scope string_scope.

Definition is_comma (t : tok) : bool := match t with TComma => true | _ => false end.

Fixpoint split_commas (ts : list tok) : list (list tok) :=
  match ts with
  | [] => [[]]
  | TComma :: r => [] :: split_commas r
  | t :: r =>
      match split_commas r with
      | seg :: segs => (t :: seg) :: segs
      | [] => [[t]]
      end
  end.

Definition is_nil {X} (l : list X) : bool := match l with [] => true | _ => false end.

(* drop the (single) empty segment a trailing comma or an empty list leaves behind *)
Definition segments (ts : list tok) : list (list tok) :=
  let segs := split_commas ts in
  match rev segs with
  | last :: front => if is_nil last then rev front else segs
  | [] => segs
  end.

Definition parse_terminated {X} (p : list tok -> verdict X) (ts : list tok) : verdict (list X) :=
  vmap p (segments ts).

(* ---- item ------------------------------------------------------------------------- *)

Definition family_of_type (ty : string) : family :=
  if String.eqb ty "String" then FStr
  else match ity_of_name ty with
       | Some t => FInt ty t
       | None =>
           if String.eqb ty "f32" then FFloat false
           else if String.eqb ty "f64" then FFloat true
           else FAny ty
       end.

Definition attr_supported (a : string) : bool := String.eqb a "doc" || String.eqb a "derive".

Definition parse_meta (it : item) : verdict family :=
  if negb (forallb attr_supported (it_attrs it)) then Reject "meta:unsupported_attribute"
  else if existsb (String.eqb "derive") (it_attrs it) then Reject "meta:derive_attribute"
  else if negb (String.eqb (it_kind it) "tuple") then Reject "meta:not_tuple_struct"
  else match it_fields it with
       | [] => Reject "meta:empty_tuple_struct"
       | f :: _ =>
           if negb (String.eqb (f_vis f) "") then Reject "meta:field_visibility"
           else Accept (family_of_type (f_ty f))
       end.

(* ---- bounds ------------------------------------------------------------------------ *)

Definition parse_bound_int (t : int_ty) (e : expr) : verdict bound :=
  match leading_lit e with
  | Some (neg, l, whole) =>
      match int_from_str t neg l with
      | Some v => if whole then Accept (BLit v) else Reject "parse:tokens_after_literal"
      | None => Accept (BExpr e)
      end
  | None => Accept (BExpr e)
  end.

Definition float_from_str (is64 : bool) (neg : bool) (l : lit) : option Z :=
  match l_suffix l with
  | Some _ => None
  | None =>
      if l_radix l then None
      else let b := if is64 then l_f64 l else l_f32 l in
           Some (if neg then fb_neg is64 b else b)
  end.

Definition parse_bound_float (is64 : bool) (e : expr) : verdict bound :=
  match leading_lit e with
  | Some (neg, l, whole) =>
      match float_from_str is64 neg l with
      | Some v =>
          if whole then
            (* a non-finite value cannot be re-tokenised as a literal: the macro panics *)
            if fb_is_finite is64 v then Accept (BLit v) else Reject "gen:non_finite_literal"
          else Reject "parse:tokens_after_literal"
      | None => Accept (BExpr e)
      end
  | None => Accept (BExpr e)
  end.

Definition usize_ty : int_ty := {| signed := false; bits := 64 |}.

Definition parse_bound (fam : family) (e : expr) : verdict bound :=
  match fam with
  | FInt _ t => parse_bound_int t e
  | FFloat is64 => parse_bound_float is64 e
  | FStr => parse_bound_int usize_ty e
  | FAny _ => Reject "parse:no_bounds_for_any"
  end.

(* ---- sanitizers / validators -------------------------------------------------------- *)

Definition parse_sanitizer (fam : family) (seg : list tok) : verdict sanitizer :=
  match seg with
  | [TId k] =>
      match fam with
      | FStr =>
          if String.eqb k "trim" then Accept STrim
          else if String.eqb k "lowercase" then Accept SLowercase
          else if String.eqb k "uppercase" then Accept SUppercase
          else Reject "parse:unknown_sanitizer"
      | _ => Reject "parse:unknown_sanitizer"
      end
  | [TId k; TEq; TFn f] =>
      if String.eqb k "with" then Accept (SWith f) else Reject "parse:unknown_sanitizer"
  | _ => Reject "parse:bad_sanitizer"
  end.

Inductive vattr := VAStd (v : validator) | VAWith (f : fnref) | VAError (p : string).

Definition is_numeric (fam : family) : bool :=
  match fam with FInt _ _ | FFloat _ => true | _ => false end.
Definition is_float (fam : family) : bool := match fam with FFloat _ => true | _ => false end.
Definition is_str (fam : family) : bool := match fam with FStr => true | _ => false end.

Definition parse_validate_attr (ft : features) (fam : family) (seg : list tok) : verdict vattr :=
  match seg with
  | [TId k] =>
      if String.eqb k "finite" && is_float fam then Accept (VAStd VFinite)
      else if String.eqb k "not_empty" && is_str fam then Accept (VAStd VNotEmpty)
      else Reject "parse:unknown_validator"
  | [TId k; TEq; TExpr e] =>
      if is_numeric fam && String.eqb k "greater" then
        let! b := parse_bound fam e in Accept (VAStd (VGreater b))
      else if is_numeric fam && String.eqb k "greater_or_equal" then
        let! b := parse_bound fam e in Accept (VAStd (VGreaterOrEqual b))
      else if is_numeric fam && String.eqb k "less" then
        let! b := parse_bound fam e in Accept (VAStd (VLess b))
      else if is_numeric fam && String.eqb k "less_or_equal" then
        let! b := parse_bound fam e in Accept (VAStd (VLessOrEqual b))
      else if is_str fam && String.eqb k "len_char_min" then
        let! b := parse_bound fam e in Accept (VAStd (VLenCharMin b))
      else if is_str fam && String.eqb k "len_char_max" then
        let! b := parse_bound fam e in Accept (VAStd (VLenCharMax b))
      else Reject "parse:unknown_validator"
  | [TId k; TEq; TFn f] =>
      if String.eqb k "predicate" then Accept (VAStd (VPredicate f))
      else if String.eqb k "with" then Accept (VAWith f)
      else Reject "parse:unknown_validator"
  | [TId k; TEq; TStr s] =>
      if String.eqb k "regex" && is_str fam then
        if ft_regex ft then Accept (VAStd (VRegex (RLit s))) else Reject "parse:regex_feature"
      else Reject "parse:unknown_validator"
  | [TId k; TEq; TPath p] =>
      if String.eqb k "regex" && is_str fam then
        if ft_regex ft then Accept (VAStd (VRegex (RPath p))) else Reject "parse:regex_feature"
      else if String.eqb k "error" then Accept (VAError p)
      else Reject "parse:unknown_validator"
  | _ => Reject "parse:bad_validator"
  end.

Fixpoint collect_vattrs (l : list vattr) (vs : list validator) (w : option fnref) (e : option string)
  : verdict (list validator * option fnref * option string) :=
  match l with
  | [] => Accept (rev vs, w, e)
  | VAStd v :: r => collect_vattrs r (v :: vs) w e
  | VAWith f :: r =>
      match w with Some _ => Reject "parse:duplicate_with" | None => collect_vattrs r vs (Some f) e end
  | VAError p :: r =>
      match e with Some _ => Reject "parse:duplicate_error" | None => collect_vattrs r vs w (Some p) end
  end.

Definition parse_validation (ft : features) (fam : family) (ts : list tok) : verdict raw_validation :=
  let! attrs := parse_terminated (parse_validate_attr ft fam) ts in
  let! (vs, w, e) := collect_vattrs attrs [] None None in
  match vs, w, e with
  | [], Some f, Some p => Accept (RVCustom f p)
  | [], Some _, None => Reject "parse:with_without_error"
  | [], None, Some _ => Reject "parse:error_without_with"
  | [], None, None => Reject "parse:no_validators"
  | _, None, None => Accept (RVStandard vs)
  | _, _, _ => Reject "parse:with_error_mixed"
  end.

(* ---- derive list -------------------------------------------------------------------- *)

Definition parse_trait (ft : features) (seg : list tok) : verdict trait :=
  match seg with
  | [TId n] =>
      if String.eqb n "Debug" then Accept TrDebug
      else if String.eqb n "Display" then Accept TrDisplay
      else if String.eqb n "Clone" then Accept TrClone
      else if String.eqb n "Copy" then Accept TrCopy
      else if String.eqb n "PartialEq" then Accept TrPartialEq
      else if String.eqb n "Eq" then Accept TrEq
      else if String.eqb n "PartialOrd" then Accept TrPartialOrd
      else if String.eqb n "Ord" then Accept TrOrd
      else if String.eqb n "FromStr" then Accept TrFromStr
      else if String.eqb n "AsRef" then Accept TrAsRef
      else if String.eqb n "Deref" then Accept TrDeref
      else if String.eqb n "TryFrom" then Accept TrTryFrom
      else if String.eqb n "From" then Accept TrFrom
      else if String.eqb n "Into" then Accept TrInto
      else if String.eqb n "Hash" then Accept TrHash
      else if String.eqb n "Borrow" then Accept TrBorrow
      else if String.eqb n "Default" then Accept TrDefault
      else if String.eqb n "IntoIterator" then Accept TrIntoIterator
      else if String.eqb n "Serialize" then
        if ft_serde ft then Accept TrSerialize else Reject "parse:serde_feature"
      else if String.eqb n "Deserialize" then
        if ft_serde ft then Accept TrDeserialize else Reject "parse:serde_feature"
      else if String.eqb n "JsonSchema" then
        if ft_schemars ft then Accept TrJsonSchema else Reject "parse:schemars_feature"
      else if String.eqb n "Arbitrary" then
        if ft_arbitrary ft then Accept TrArbitrary else Reject "parse:arbitrary_feature"
      else Reject "parse:unknown_trait"
  | _ => Reject "parse:bad_trait"
  end.

(* ---- attribute list ------------------------------------------------------------------ *)

Record seen := { sn_san : bool; sn_val : bool; sn_der : bool; sn_def : bool }.

Fixpoint parse_blocks (ft : features) (fam : family) (segs : list (list tok)) (sn : seen) (p : parsed)
  : verdict parsed :=
  match segs with
  | [] => Accept p
  | seg :: rest =>
      match seg with
      | [TId k; TG ts] =>
          if String.eqb k "sanitize" then
            if sn_san sn then Reject "parse:duplicate_block" else
            let! ss := parse_terminated (parse_sanitizer fam) ts in
            parse_blocks ft fam rest
              {| sn_san := true; sn_val := sn_val sn; sn_der := sn_der sn; sn_def := sn_def sn |}
              {| p_sans := ss; p_validation := p_validation p; p_new_unchecked := p_new_unchecked p;
                 p_const_fn := p_const_fn p; p_default := p_default p; p_derives := p_derives p |}
          else if String.eqb k "validate" then
            if sn_val sn then Reject "parse:duplicate_block" else
            let! v := parse_validation ft fam ts in
            parse_blocks ft fam rest
              {| sn_san := sn_san sn; sn_val := true; sn_der := sn_der sn; sn_def := sn_def sn |}
              {| p_sans := p_sans p; p_validation := Some v; p_new_unchecked := p_new_unchecked p;
                 p_const_fn := p_const_fn p; p_default := p_default p; p_derives := p_derives p |}
          else if String.eqb k "derive" then
            if sn_der sn then Reject "parse:duplicate_block" else
            let! ds := parse_terminated (parse_trait ft) ts in
            parse_blocks ft fam rest
              {| sn_san := sn_san sn; sn_val := sn_val sn; sn_der := true; sn_def := sn_def sn |}
              {| p_sans := p_sans p; p_validation := p_validation p; p_new_unchecked := p_new_unchecked p;
                 p_const_fn := p_const_fn p; p_default := p_default p; p_derives := ds |}
          else Reject "parse:unknown_attribute"
      | [TId k; TEq; TExpr e] =>
          if String.eqb k "default" then
            if sn_def sn then Reject "parse:duplicate_block" else
            parse_blocks ft fam rest
              {| sn_san := sn_san sn; sn_val := sn_val sn; sn_der := sn_der sn; sn_def := true |}
              {| p_sans := p_sans p; p_validation := p_validation p; p_new_unchecked := p_new_unchecked p;
                 p_const_fn := p_const_fn p; p_default := Some e; p_derives := p_derives p |}
          else Reject "parse:unknown_attribute"
      | [TId k] =>
          if String.eqb k "const_fn" then
            parse_blocks ft fam rest sn
              {| p_sans := p_sans p; p_validation := p_validation p; p_new_unchecked := p_new_unchecked p;
                 p_const_fn := true; p_default := p_default p; p_derives := p_derives p |}
          else if String.eqb k "new_unchecked" then
            if ft_new_unchecked ft then
              parse_blocks ft fam rest sn
                {| p_sans := p_sans p; p_validation := p_validation p; p_new_unchecked := true;
                   p_const_fn := p_const_fn p; p_default := p_default p; p_derives := p_derives p |}
            else Reject "parse:new_unchecked_feature"
          else if String.eqb k "sanitize" || String.eqb k "validate" || String.eqb k "derive"
          then Reject "parse:missing_parenthesis"
          else Reject "parse:unknown_attribute"
      | _ => Reject "parse:bad_attribute"
      end
  end.

Definition empty_parsed : parsed :=
  {| p_sans := []; p_validation := None; p_new_unchecked := false; p_const_fn := false;
     p_default := None; p_derives := [] |}.

Definition parse_attrs (ft : features) (fam : family) (ts : list tok) : verdict parsed :=
  parse_blocks ft fam (segments ts)
    {| sn_san := false; sn_val := false; sn_der := false; sn_def := false |} empty_parsed.
