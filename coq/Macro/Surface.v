(* L0: what the user writes.  The attribute is a token tree (the shape proc_macro2 hands to
   the macro) in which every maximal expression run is one [TExpr] token; the item is a
   summary of the struct definition. *)
From NV Require Import Base.Util Base.IntTy Base.Expr.
Local Open Scope string_scope.

Inductive fnform := FPath | FClosure (typed : bool) (mutarg : bool).
Record fnref := { fn_id : N; fn_form : fnform }.

Inductive tok :=
| TId (s : string)
| TComma
| TEq
| TG (ts : list tok)          (* ( ... ) *)
| TStr (s : list N)           (* "..." *)
| TExpr (e : expr)
| TFn (f : fnref)             (* a path to a function of the fixed library, or a closure *)
| TPath (s : string).         (* a path to a type or a static (custom error, regex static) *)

Record field := { f_vis : string; f_ty : string }.
Record gparam := { g_name : string; g_bounds : list string }.

Record item := {
  it_kind : string;            (* "tuple" | "named" | "unit" | "enum" *)
  it_vis : string;
  it_name : string;
  it_generics : list gparam;
  it_attrs : list string;      (* head identifier of each outer attribute: doc, derive, repr, .. *)
  it_fields : list field
}.

Record features := {
  ft_std : bool; ft_serde : bool; ft_regex : bool; ft_arbitrary : bool;
  ft_new_unchecked : bool; ft_schemars : bool
}.

Record sdecl := { sd_item : item; sd_attr : list tok; sd_env : env }.
