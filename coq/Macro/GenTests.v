(* The #[test]s the macro emits into the user's crate (common/gen/tests.rs,
   string/gen/tests.rs) and whether their assertion holds. *)
From NV Require Import Base.Util Base.IntTy Base.FloatBits Base.Float Base.Expr
     Macro.Surface Macro.Ast Macro.Parse Sem.Guard Sem.Value Sem.Eval Sem.Conv.
Local Open Scope string_scope.
Local Open Scope Z_scope.

Section WithLib.
  Variable lib : fnlib.

  Fixpoint first_bound (ks : list vkind) (vs : list validator) : option (vkind * bound) :=
    match vs with
    | [] => None
    | v :: r =>
        match v with
        | VGreater b | VGreaterOrEqual b | VLess b | VLessOrEqual b | VLenCharMin b | VLenCharMax b =>
            if existsb (vkind_eqb (vkind_of v)) ks then Some (vkind_of v, b) else first_bound ks r
        | _ => first_bound ks r
        end
    end.

  (* should_have_consistent_lower_and_upper_boundaries: assert!(upper > lower) when a bound is
     exclusive, assert!(upper >= lower) otherwise *)
  Definition bounds_test (d : decl) : option bool :=
    let vs := standard_validators d in
    match d_family d with
    | FInt _ _ | FFloat _ =>
        match first_bound [KGreater; KGreaterOrEqual] vs, first_bound [KLess; KLessOrEqual] vs with
        | Some (kl, bl), Some (ku, bu) =>
            let excl := existsb (fun v => match v with VGreater _ | VLess _ => true | _ => false end) vs in
            let lo := bval d bl in
            let hi := bval d bu in
            Some (match d_family d with
                  | FFloat is64 => if excl then f_gt is64 hi lo else f_ge is64 hi lo
                  | _ => if excl then hi >? lo else hi >=? lo
                  end)
        | _, _ => None
        end
    | FStr =>
        match first_bound [KLenCharMin] vs, first_bound [KLenCharMax] vs with
        | Some (_, bl), Some (_, bu) => Some (bval d bu >=? bval d bl)
        | _, _ => None
        end
    | FAny _ => None
    end.

  (* should_have_valid_default_value: T::default() must not panic and must re-validate *)
  Definition default_test (d : decl) : option bool :=
    if has_validation d && match d_generics d with [] => true | _ => false end then
      match d_default d with
      | None => None
      | Some _ =>
          match default_value d with
          | Some v => Some (match d_try_new lib d v with Ok _ => true | Err _ => false end)
          | None => None
          end
      end
    else None.

  Definition gen_tests (d : decl) : list (string * bool) :=
    (match bounds_test d with
     | Some r => [((match d_family d with FStr => "should_have_consistent_len_char_boundaries"
                                     | _ => "should_have_consistent_lower_and_upper_boundaries" end)%string, r)]
     | None => [] end ++
     match default_test d with
     | Some r => [("should_have_valid_default_value"%string, r)]
     | None => [] end)%list.
End WithLib.
