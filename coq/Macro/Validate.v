(* L1b: semantic checks of the macro (mirrors common/validate.rs, */validate.rs and the
   refusals issued while generating code), followed by the part of rustc's verdict on the
   expansion that depends on the declaration (type-checking of spliced bound expressions,
   constructors that do not exist, generics handling of some impls). *)
From NV Require Import Base.Util Base.IntTy Base.FloatBits Base.Float Base.Expr
     Macro.Surface Macro.Ast Macro.Parse.
Local Open Scope string_scope.

Definition guardv (bad : bool) (cls : string) : verdict unit := if bad then Reject cls else Accept tt.

Fixpoint has_dup {K} (eqb : K -> K -> bool) (l : list K) : bool :=
  match l with
  | [] => false
  | k :: r => existsb (eqb k) r || has_dup eqb r
  end.

(* first literal bound of a kind (mirrors find_bound_variant!: expressions are invisible) *)
Fixpoint lit_of (k : vkind) (vs : list validator) : option Z :=
  match vs with
  | [] => None
  | v :: r =>
      match v, k with
      | VGreater (BLit x), KGreater => Some x
      | VGreaterOrEqual (BLit x), KGreaterOrEqual => Some x
      | VLess (BLit x), KLess => Some x
      | VLessOrEqual (BLit x), KLessOrEqual => Some x
      | VLenCharMin (BLit x), KLenCharMin => Some x
      | VLenCharMax (BLit x), KLenCharMax => Some x
      | _, _ => lit_of k r
      end
  end.

Definition orelse {X} (a b : option X) : option X := match a with Some _ => a | None => b end.
Definition both {X} (a b : option X) : bool := match a, b with Some _, Some _ => true | _, _ => false end.
Definition rel2 (r : Z -> Z -> bool) (a b : option Z) : bool :=
  match a, b with Some x, Some y => r x y | _, _ => false end.

(* [ge]/[gt]: PartialOrd of the literal type (Z order for integers, IEEE order for floats) *)
Definition validate_numeric_bounds (ge gt : Z -> Z -> bool) (vs : list validator) : verdict unit :=
  let g := lit_of KGreater vs in
  let ge_ := lit_of KGreaterOrEqual vs in
  let l := lit_of KLess vs in
  let le := lit_of KLessOrEqual vs in
  let! _ := guardv (both g ge_) "validate:greater_and_greater_or_equal" in
  let! _ := guardv (both l le) "validate:less_and_less_or_equal" in
  let! _ := guardv (rel2 ge g l) "validate:bounds_exclude" in
  let! _ := guardv (rel2 ge g le) "validate:bounds_exclude" in
  let! _ := guardv (rel2 ge ge_ l) "validate:bounds_exclude" in
  guardv (rel2 gt (orelse g ge_) (orelse l le)) "validate:bounds_exclude".

(* regex literals known to the harness, with the verdict of regex::Regex::new (checked by
   the harness against the real crate on every run) *)
Definition regex_lib : list (list N * bool) :=
  [ ([94; 91; 97; 45; 122; 93; 43; 36]%N, true)       (* ^[a-z]+$ *)
  ; ([64]%N, true)                                     (* @ *)
  ; ([94; 46; 123; 50; 44; 52; 125; 36]%N, true)       (* ^.{2,4}$ *)
  ; ([98; 123; 50; 125]%N, true)                       (* b{2} *)
  ; ([40; 63; 105; 41; 94; 107; 91; 48; 45; 57; 93; 43; 36]%N, true)   (* (?i)^k[0-9]+$ *)
  ; ([94; 92; 112; 123; 71; 114; 101; 101; 107; 125; 43; 36]%N, true)   (* ^\p{Greek}+$ *)
  ; ([92; 112; 123; 65; 108; 112; 104; 97; 98; 101; 116; 105; 99; 125]%N, true)   (* \p{Alphabetic} *)
  ; ([94; 92; 112; 123; 76; 117; 125; 92; 112; 123; 76; 108; 125; 43; 36]%N, true)   (* ^\p{Lu}\p{Ll}+$ *)
  ; ([92; 112; 123; 67; 121; 114; 105; 108; 108; 105; 99; 125; 124; 92; 112; 123; 72; 97; 110; 125]%N, true)   (* \p{Cyrillic}|\p{Han} *)
  ; ([40; 63; 105; 41; 94; 92; 119; 43; 92; 98; 36]%N, true)   (* (?i)^\w+\b$ *)
  ; ([40]%N, false)                                    (* (   *)
  ; ([91; 97; 45]%N, false)                            (* [a- *)
  (* keyed by the value of the literal: a backslash is the single code 92 *)
  ; ([91; 92; 93]%N, false)                            (* [\] : unclosed class *)
  ; ([92]%N, false)                                    (* a lone backslash *)
  ; ([97; 92]%N, false)                                (* a then a backslash *)
  ; ([34]%N, true)                                     (* a double quote *)
  ; ([92; 100; 43]%N, true)                            (* \d+ *)
  ; ([92; 92]%N, true)                                 (* an escaped backslash *)
  ; ([91; 92; 93; 93]%N, true) ].                      (* [\]] *)

Fixpoint list_N_eqb (a b : list N) : bool :=
  match a, b with
  | [], [] => true
  | x :: a', y :: b' => N.eqb x y && list_N_eqb a' b'
  | _, _ => false
  end.

Fixpoint regex_valid (lib : list (list N * bool)) (s : list N) : option bool :=
  match lib with
  | [] => None
  | (k, v) :: r => if list_N_eqb k s then Some v else regex_valid r s
  end.

Definition validate_regexes (vs : list validator) : verdict unit :=
  guardv (existsb (fun v => match v with
                            | VRegex (RLit s) =>
                                match regex_valid regex_lib s with Some true => false | _ => true end
                            | _ => false end) vs) "validate:invalid_regex".

Definition validate_sanitizers (fam : family) (ss : list sanitizer) : verdict unit :=
  let ks := map skind_of ss in
  let! _ := guardv (has_dup skind_eqb ks) "validate:duplicate_sanitizer" in
  guardv (existsb (skind_eqb KLowercase) ks && existsb (skind_eqb KUppercase) ks)
         "validate:lowercase_and_uppercase".

Definition validate_validators (fam : family) (vs : list validator) : verdict unit :=
  let! _ := guardv (has_dup vkind_eqb (map vkind_of vs)) "validate:duplicate_validator" in
  match fam with
  | FInt _ _ => validate_numeric_bounds Z.geb Z.gtb vs
  | FFloat is64 => validate_numeric_bounds (f_ge is64) (f_gt is64) vs
  | FStr =>
      let! _ := guardv (rel2 Z.gtb (lit_of KLenCharMin vs) (lit_of KLenCharMax vs))
                       "validate:len_char_min_gt_max" in
      validate_regexes vs
  | FAny _ => Accept tt
  end.

Definition validate_guard (fam : family) (p : parsed) : verdict unit :=
  let! _ := validate_sanitizers fam (p_sans p) in
  match p_validation p with
  | Some (RVStandard vs) => validate_validators fam vs
  | _ => Accept tt
  end.

(* ---- derive traits ------------------------------------------------------------------- *)

Definition has_finite (p : parsed) : bool :=
  match p_validation p with
  | Some (RVStandard vs) => existsb (fun v => vkind_eqb (vkind_of v) KFinite) vs
  | _ => false
  end.
Definition p_has_validation (p : parsed) : bool :=
  match p_validation p with Some _ => true | None => false end.

Definition trait_allowed (fam : family) (p : parsed) (t : trait) : verdict unit :=
  let hv := p_has_validation p in
  match fam, t with
  | FStr, TrCopy => Reject "traits:copy_string"
  | FStr, TrIntoIterator | FInt _ _, TrIntoIterator | FFloat _, TrIntoIterator =>
      Reject "traits:into_iterator"
  | FStr, TrFrom | FInt _ _, TrFrom | FFloat _, TrFrom =>
      guardv hv "traits:from_with_validation"
  | FFloat _, TrEq | FFloat _, TrOrd => guardv (negb (has_finite p)) "traits:float_needs_finite"
  | FFloat _, TrHash => Reject "traits:float_hash"
  | FAny _, TrJsonSchema => Reject "traits:any_json_schema"
  | _, _ => Accept tt
  end.

Fixpoint dedup_traits (l : list trait) : list trait :=
  match l with
  | [] => []
  | t :: r => if has_trait t r then dedup_traits r else t :: dedup_traits r
  end.

Definition validate_traits (fam : family) (p : parsed) : verdict (list trait) :=
  let ts := p_derives p in
  let! _ := guardv (has_trait TrFrom ts && has_trait TrTryFrom ts) "traits:from_and_try_from" in
  let! _ := vmap (trait_allowed fam p) ts in
  let! _ := match fam with
            | FFloat _ =>
                let! _ := guardv (has_trait TrEq ts && negb (has_trait TrPartialEq ts))
                                 "traits:eq_requires_partial_eq" in
                guardv (has_trait TrOrd ts && negb (has_trait TrPartialOrd ts && has_trait TrEq ts))
                       "traits:ord_requires"
            | _ => Accept tt
            end in
  Accept (dedup_traits ts).

(* ---- refusals issued by the generators ------------------------------------------------- *)

Definition has_vkind (k : vkind) (p : parsed) : bool :=
  match p_validation p with
  | Some (RVStandard vs) => existsb (fun v => vkind_eqb (vkind_of v) k) vs
  | _ => false
  end.
Definition is_custom (p : parsed) : bool :=
  match p_validation p with Some (RVCustom _ _) => true | _ => false end.
Definition has_with_sanitizer (p : parsed) : bool :=
  existsb (fun s => skind_eqb (skind_of s) KWith) (p_sans p).

Definition count_kinds (ks : list vkind) (p : parsed) : nat :=
  match p_validation p with
  | Some (RVStandard vs) =>
      List.length (filter (fun v => existsb (vkind_eqb (vkind_of v)) ks) vs)
  | _ => O
  end.

Definition gen_checks (fam : family) (p : parsed) (ts : list trait) : verdict unit :=
  (* the generated consistency test asks for THE lower and THE upper bound: two of a side
     (possible only when at least one is an expression) make the macro panic *)
  let! _ := guardv (is_numeric fam && (Nat.ltb 1 (count_kinds [KGreater; KGreaterOrEqual] p) ||
                                       Nat.ltb 1 (count_kinds [KLess; KLessOrEqual] p)))
                   "gen:two_bounds_of_a_side" in
  let! _ := guardv (has_trait TrDefault ts && match p_default p with None => true | Some _ => false end)
                   "gen:default_missing" in
  if has_trait TrArbitrary ts then
    match fam with
    | FInt _ _ =>
        let! _ := guardv (is_custom p) "gen:arbitrary_custom" in
        guardv (has_vkind KPredicate p) "gen:arbitrary_predicate"
    | FFloat _ =>
        let! _ := guardv (is_custom p) "gen:arbitrary_custom" in
        let! _ := guardv (has_vkind KPredicate p) "gen:arbitrary_predicate" in
        guardv (p_has_validation p && has_with_sanitizer p) "gen:arbitrary_with_sanitizer"
    | FStr =>
        let! _ := guardv (is_custom p) "gen:arbitrary_custom" in
        let! _ := guardv (has_vkind KPredicate p) "gen:arbitrary_predicate" in
        let! _ := guardv (has_vkind KRegex p) "gen:arbitrary_regex" in
        guardv (p_has_validation p && has_with_sanitizer p) "gen:arbitrary_with_sanitizer"
    | FAny _ => guardv (p_has_validation p) "gen:arbitrary_any_validation"
    end
  else Accept tt.

(* ---- rustc on the expansion (declaration-dependent part only) --------------------------- *)

Definition bound_typechecks (fam : family) (en : env) (b : bound) : bool :=
  match b with
  | BLit _ => true
  | BExpr e =>
      match fam with
      | FInt tn t => match eval_int tn t en e with Some _ => true | None => false end
      | FStr => match eval_int "usize" usize_ty en e with Some _ => true | None => false end
      | FFloat is64 =>
          (* float expressions: constants of the right type, negation, parentheses *)
          (fix ok (e : expr) : bool :=
             match e with
             | ELit l => l_float l && suffix_ok (if is64 then "f64" else "f32") l
             | EConst n => match lookup en n with
                           | Some (ty, _) => String.eqb ty (if is64 then "f64" else "f32")
                           | None => false end
             | ENeg a | EParen a => ok a
             | _ => false
             end) e
      | FAny _ => false
      end
  end.

(* Expression bounds are also spliced into the error's Display arm (`write!(f, "..{:#?}", #e)`)
   where nothing fixes the type of unsuffixed literals: an expression made of unsuffixed
   integer literals only is typed i32 there and must fit it. *)
Fixpoint has_typed_leaf (e : expr) : bool :=
  match e with
  | ELit l => match l_suffix l with Some _ => true | None => false end
  | EConst _ => true
  | ENeg a | ENot a | EParen a => has_typed_leaf a
  | EBin _ a b => has_typed_leaf a || has_typed_leaf b
  | EStr _ | EList _ => true
  end.

Definition i32_ty : int_ty := {| signed := true; bits := 32 |}.

Definition bound_display_ok (fam : family) (en : env) (b : bound) : bool :=
  match b with
  | BLit _ => true
  | BExpr e =>
      match fam with
      | FInt _ _ | FStr =>
          if has_typed_leaf e then true
          else match eval_int "i32" i32_ty en e with Some _ => true | None => false end
      | _ => true
      end
  end.

Definition validator_display_ok (fam : family) (en : env) (v : validator) : bool :=
  match v with
  | VGreater b | VGreaterOrEqual b | VLess b | VLessOrEqual b | VLenCharMin b | VLenCharMax b =>
      bound_display_ok fam en b
  | _ => true
  end.

Definition validator_typechecks (fam : family) (en : env) (v : validator) : bool :=
  match v with
  | VGreater b | VGreaterOrEqual b | VLess b | VLessOrEqual b | VLenCharMin b | VLenCharMax b =>
      bound_typechecks fam en b
  | _ => true
  end.

Definition rustc_checks (fam : family) (it : item) (en : env) (p : parsed) (ts : list trait)
  : verdict unit :=
  let vs := match p_validation p with Some (RVStandard vs) => vs | _ => [] end in
  let! _ := guardv (negb (forallb (validator_typechecks fam en) vs)) "rustc:bound_type" in
  let! _ := guardv (negb (forallb (validator_display_ok fam en) vs)) "rustc:known:untyped_literal_in_display" in
  (* `From` of an "other" inner type calls Self::new, which exists only without validation *)
  let! _ := guardv (match fam with FAny _ => has_trait TrFrom ts && p_has_validation p | _ => false end)
                   "rustc:from_without_new" in
  (* #[derive] dependencies enforced by rustc: Eq: PartialEq; PartialOrd: PartialEq;
     Ord: PartialOrd + Eq; Copy: Clone *)
  let! _ := guardv ((has_trait TrEq ts && negb (has_trait TrPartialEq ts)) ||
                    (has_trait TrPartialOrd ts && negb (has_trait TrPartialEq ts)) ||
                    (has_trait TrOrd ts && negb (has_trait TrPartialOrd ts && has_trait TrEq ts)) ||
                    (has_trait TrCopy ts && negb (has_trait TrClone ts))) "rustc:derive_dependency" in
  (* const fn bodies may only call const fns: closures, String / Vec operations and the
     non-const library functions (custom `with` validators) do not qualify *)
  let fn_forms := (flat_map (fun s => match s with SWith f => [fn_form f] | _ => [] end) (p_sans p) ++
                  flat_map (fun v => match v with VPredicate f => [fn_form f] | _ => [] end) vs)%list in
  let! _ := guardv (p_const_fn p &&
                    (negb (is_numeric fam) || is_custom p ||
                     existsb (fun f => match f with FPath => false | _ => true end) fn_forms))
                   "rustc:const_fn_body" in
  (* a closure as custom `with` validator is spliced as `#with(value)` without parentheses *)
  let! _ := guardv (match p_validation p with
                    | Some (RVCustom w _) => match fn_form w with FPath => false | _ => true end
                    | _ => false end) "rustc:known:custom_with_closure" in
  let generic := negb (is_nil (it_generics it)) in
  let bounded := existsb (fun g => negb (is_nil (g_bounds g))) (it_generics it) in
  let! _ := guardv (generic && p_new_unchecked p) "rustc:known:new_unchecked_generics" in
  let! _ := guardv (bounded && has_trait TrInto ts) "rustc:known:into_generic_bounds" in
  let pnames := map g_name (it_generics it) in
  let! _ := guardv (has_trait TrDeserialize ts &&
                    existsb (fun n => String.eqb n "D" || String.eqb n "DE") pnames)
                   "rustc:known:type_param_clash_deserialize" in
  guardv (has_trait TrSerialize ts && existsb (String.eqb "S") pnames)
         "rustc:known:type_param_clash_serialize".

(* ---- the whole front end ---------------------------------------------------------------- *)

Definition macro_verdict (ft : features) (sd : sdecl) : verdict decl :=
  let it := sd_item sd in
  let! fam := parse_meta it in
  let! p := parse_attrs ft fam (sd_attr sd) in
  let! _ := validate_guard fam p in
  let! ts := validate_traits fam p in
  let! _ := gen_checks fam p ts in
  Accept {| d_family := fam; d_name := it_name it; d_vis := it_vis it;
            d_generics := it_generics it; d_sans := p_sans p; d_validation := p_validation p;
            d_new_unchecked := p_new_unchecked p; d_const_fn := p_const_fn p;
            d_default := p_default p; d_traits := ts; d_env := sd_env sd |}.

Definition full_verdict (ft : features) (sd : sdecl) : verdict decl :=
  let! d := macro_verdict ft sd in
  let! p := parse_attrs ft (d_family d) (sd_attr sd) in
  let! _ := rustc_checks (d_family d) (sd_item sd) (sd_env sd) p (d_traits d) in
  Accept d.
