(* The inventory of what the macro emits for an accepted declaration: every non-derived impl
   block and every function in it, with the facts C05 / C03 / C13 / C15 talk about.  The
   harness extracts the same records from the real expansion (-Zunpretty=expanded parsed with
   syn) and compares them line by line. *)
From NV Require Import Base.Util Base.IntTy Base.Expr Macro.Surface Macro.Ast Macro.Parse Macro.Validate.
Local Open Scope string_scope.

Inductive recv := RNone | RVal | RRef | RMut.
Inductive facc := FNone | FVal | FRef | FMut.

Record fn_rec := {
  fr_trait : string;       (* "-" = inherent *)
  fr_self : string;        (* "T" | "&T" | "other:<X>" *)
  fr_name : string;
  fr_pub : bool;
  fr_unsafe : bool;
  fr_const : bool;
  fr_recv : recv;
  fr_ret_self : bool;
  fr_ret_mut : bool;
  fr_ctor : bool;
  fr_calls : list string;  (* sorted subset of try_new new new_unchecked into_inner __sanitize__ __validate__ *)
  fr_field : facc
}.

Definition mk (tr self name : string) (pub unsafe_ const_ : bool) (r : recv) (ret_self ctor : bool)
           (calls : list string) (f : facc) : fn_rec :=
  {| fr_trait := tr; fr_self := self; fr_name := name; fr_pub := pub; fr_unsafe := unsafe_;
     fr_const := const_; fr_recv := r; fr_ret_self := ret_self; fr_ret_mut := false; fr_ctor := ctor;
     fr_calls := calls; fr_field := f |}.

Definition ctor_call (d : decl) : string := if has_validation d then "try_new" else "new".

Definition inner_other (d : decl) : string :=
  match d_family d with
  | FStr => "other:String"
  | FInt tn _ => "other:" ++ tn
  | FFloat is64 => if is64 then "other:f64" else "other:f32"
  | FAny ty => "other:Vec"
  end.

(* inherent functions *)
Definition inherent_fns (d : decl) : list fn_rec :=
  let c := d_const_fn d in
  ((if has_validation d then
     [ mk "-" "T" "try_new" true false c RNone true true ["__sanitize__"; "__validate__"] FNone;
       mk "-" "T" "__sanitize__" false false c RNone false false [] FNone;
       (* a regex literal is compiled by `::regex::Regex::new(..)` inside __validate__ *)
       mk "-" "T" "__validate__" false false c RNone false false
          (if existsb (fun v => match v with VRegex (RLit _) => true | _ => false end) (standard_validators d)
           then ["new"] else []) FNone ]
   else
     [ mk "-" "T" "new" true false c RNone true true ["__sanitize__"] FNone;
       mk "-" "T" "__sanitize__" false false c RNone false false [] FNone ]) ++
  [ mk "-" "T" "into_inner" true false c RVal false false [] FVal ] ++
  (if d_new_unchecked d then [ mk "-" "T" "new_unchecked" true true c RNone true true [] FNone ] else []))%list.

Definition is_standard (d : decl) : bool :=
  match d_validation d with Some (RVStandard _) => true | _ => false end.

(* the generated error enum: Display and Error impls *)
Definition error_fns (ft : features) (d : decl) : list fn_rec :=
  if is_standard d then
    [ mk "core::fmt::Display" ("other:" ++ d_name d ++ "Error") "fmt" false false false RRef false false [] FNone;
      mk "core::error::Error" ("other:" ++ d_name d ++ "Error") "source" false false false RRef false false [] FNone ]
  else [].

Definition trait_fns (d : decl) (t : trait) : list fn_rec :=
  let cc := [ctor_call d] in
  let is_s := match d_family d with FStr => true | _ => false end in
  match t with
  | TrAsRef => [ mk "core::convert::AsRef" "T" "as_ref" false false false RRef false false [] FRef ]
  | TrDeref => [ mk "core::ops::Deref" "T" "deref" false false false RRef true false [] FRef ]
  | TrBorrow =>
      if is_s then [ mk "core::borrow::Borrow" "T" "borrow" false false false RRef false false [] FRef;
                     mk "core::borrow::Borrow" "T" "borrow" false false false RRef false false [] FRef ]
      else [ mk "core::borrow::Borrow" "T" "borrow" false false false RRef false false [] FRef ]
  | TrInto => [ mk "core::convert::From" (inner_other d) "from" false false false RNone true false ["into_inner"] FNone ]
  | TrFrom =>
      let one := mk "core::convert::From" "T" "from" false false false RNone true false ["new"] FNone in
      if is_s then [one; one] else [one]
  | TrTryFrom =>
      let one := mk "core::convert::TryFrom" "T" "try_from" false false false RNone true false cc FNone in
      if is_s then [one; one] else [one]
  | TrFromStr =>
      if is_s then [ mk "core::str::FromStr" "T" "from_str" false false false RNone true false cc FNone ]
      else [ mk "core::str::FromStr" "T" "from_str" false false false RNone true false cc FNone;
             mk "core::fmt::Display" ("other:" ++ d_name d ++ "ParseError") "fmt" false false false RRef false false [] FNone;
             mk "core::error::Error" ("other:" ++ d_name d ++ "ParseError") "source" false false false RRef false false [] FNone ]
  | TrDisplay => [ mk "core::fmt::Display" "T" "fmt" false false false RRef false false [] FRef ]
  | TrDefault => [ mk "core::default::Default" "T" "default" false false false RNone true false cc FNone ]
  | TrSerialize => [ mk "serde::Serialize" "T" "serialize" false false false RRef false false [] FRef ]
  | TrDeserialize =>
      [ mk "serde::Deserialize" "T" "deserialize" false false false RNone true false cc FNone;
        mk "serde::de::Visitor" "other:__Visitor" "expecting" false false false RRef false false [] FNone;
        mk "serde::de::Visitor" "other:__Visitor" "visit_newtype_struct" false false false RVal true false cc FNone ]
  | TrArbitrary =>
      mk "arbitrary::Arbitrary" "T" "arbitrary" false false false RNone true false cc FNone ::
      (match d_family d with
       | FInt _ _ => []     (* the integer generator emits size_hint as a free function *)
       | _ => [ mk "arbitrary::Arbitrary" "T" "size_hint" false false false RNone false false [] FNone ]
       end)
  | TrIntoIterator =>
      [ mk "core::iter::IntoIterator" "T" "into_iter" false false false RVal true false [] FVal;
        mk "core::iter::IntoIterator" "&T" "into_iter" false false false RVal true false [] FVal ]
  | TrOrd => match d_family d with
             | FFloat _ => [ mk "core::cmp::Ord" "T" "cmp" false false false RRef false false [] FNone ]
             | _ => []
             end
  | _ => []     (* plain #[derive]s: Debug Clone Copy PartialEq Eq PartialOrd Ord Hash JsonSchema *)
  end.

Definition gen_fns (ft : features) (d : decl) : list fn_rec :=
  (inherent_fns d ++ error_fns ft d ++ flat_map (trait_fns d) (d_traits d))%list.

(* the re-exports next to the private module: (visibility, name) *)
Definition gen_uses (d : decl) : list (string * string) :=
  ((d_vis d, d_name d) ::
  (if is_standard d then [(d_vis d, (d_name d ++ "Error")%string)] else []) ++
  (if has_trait TrFromStr (d_traits d) && negb (is_str (d_family d)) then [(d_vis d, (d_name d ++ "ParseError")%string)] else []))%list.

(* printing, in the extractor's format *)
Definition pr_recv (r : recv) : string :=
  match r with RNone => "none" | RVal => "val" | RRef => "ref" | RMut => "mut" end.
Definition pr_facc (f : facc) : string :=
  match f with FNone => "none" | FVal => "val" | FRef => "ref" | FMut => "mut" end.
Definition pr_calls (l : list string) : string := match l with [] => "-" | _ => concat_with "," l end.

Definition pr_fn (f : fn_rec) : string :=
  "fn|" ++ fr_trait f ++ "|" ++ fr_self f ++ "|" ++ fr_name f ++ "|pub=" ++ string_of_bool (fr_pub f) ++
  "|unsafe=" ++ string_of_bool (fr_unsafe f) ++ "|const=" ++ string_of_bool (fr_const f) ++
  "|recv=" ++ pr_recv (fr_recv f) ++ "|ret_self=" ++ string_of_bool (fr_ret_self f) ++
  "|ret_mut=" ++ string_of_bool (fr_ret_mut f) ++ "|ctor=" ++ string_of_bool (fr_ctor f) ++
  "|calls=" ++ pr_calls (fr_calls f) ++ "|field=" ++ pr_facc (fr_field f).
