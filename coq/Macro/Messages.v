(* Display text of the generated validation errors (string,integer,float,any /gen/error.rs): the sentence template of
   each variant.  The bound is echoed with {:#?}; its decimal rendering is not modelled and is
   left as the placeholder "{}" (the harness checks that the echoed text denotes the bound). *)
From NV Require Import Base.Util Macro.Ast.
Local Open Scope string_scope.

(* the relation a sentence states, read literally *)
Inductive relword := RGreater | RGreaterOrEqual | RLess | RLessOrEqual | RAtMost | RAtLeast.

Definition relword_text (r : relword) : string :=
  match r with
  | RGreater => "greater than"
  | RGreaterOrEqual => "greater or equal to"
  | RLess => "less than"
  | RLessOrEqual => "less or equal to"
  | RAtMost => "at most"
  | RAtLeast => "at least"
  end.

(* which relation the message of a bound validator states *)
Definition msg_rel (fam : family) (k : vkind) : option relword :=
  match fam, k with
  | FInt _ _, KGreater => Some RGreater
  | FInt _ _, KGreaterOrEqual => Some RGreaterOrEqual
  | FInt _ _, KLess => Some RLess
  | FInt _ _, KLessOrEqual => Some RLessOrEqual
  | FFloat _, KGreater => Some RGreater
  | FFloat _, KGreaterOrEqual => Some RGreaterOrEqual
  | FFloat _, KLess => Some RLessOrEqual            (* sic: float/gen/error.rs *)
  | FFloat _, KLessOrEqual => Some RLess            (* sic *)
  | FStr, KLenCharMax => Some RAtMost
  | FStr, KLenCharMin => Some RAtLeast
  | _, _ => None
  end.

Definition msg_text (fam : family) (name : string) (k : vkind) : string :=
  match fam, k with
  | FStr, KLenCharMax =>
      name ++ " is too long. The value length must be at most {} character(s)."
  | FStr, KLenCharMin =>
      name ++ " is too short. The value length must be at least {} character(s)."
  | FStr, KNotEmpty => name ++ " is empty."
  | FStr, KRegex => name ++ " violated the regular expression."
  | _, KPredicate => name ++ " failed the predicate test."
  | _, KFinite => name ++ " is not finite."
  | _, KGreater | _, KGreaterOrEqual =>
      match msg_rel fam k with
      | Some r => name ++ " is too small. The value must be " ++ relword_text r ++ " {}."
      | None => ""
      end
  | _, KLess | _, KLessOrEqual =>
      match msg_rel fam k with
      | Some r => name ++ " is too big. The value must be " ++ relword_text r ++ " {}."
      | None => ""
      end
  | _, _ => ""
  end.

(* serde: "<msg> Expected valid <T>"; FromStr: "Failed to parse <T>: <msg>" *)
Definition serde_msg (name msg : string) : string := msg ++ " Expected valid " ++ name.
Definition parse_msg (name msg : string) : string := "Failed to parse " ++ name ++ ": " ++ msg.
