(* Extraction of the executable model for the high-volume correspondence runs.
   Directives in use: ExtrOcamlBasic (bool, option, list, prod, unit, sumbool as native OCaml
   data) and ExtrOcamlString (ascii -> char, string -> char list).  Numbers (positive, N, Z,
   nat) and Flocq's binary_float stay Coq datatypes: no Extract Constant of ours. *)
From Coq Require Import Extraction ExtrOcamlBasic ExtrOcamlString.
From NV Require Import Run.Runner.
Extraction Language OCaml.
Set Extraction KeepSingleton.
Extraction "model.ml" run_line.
