(* stdin: one case per line; stdout: the model's outcome lines *)
let explode s = List.init (String.length s) (String.get s)
let implode l = let b = Buffer.create 64 in List.iter (Buffer.add_char b) l; Buffer.contents b
let () =
  let out = Buffer.create (1 lsl 20) in
  (try
     while true do
       let line = input_line stdin in
       if String.length line > 0 then
         List.iter (fun l -> Buffer.add_string out (implode l); Buffer.add_char out '\n')
           (Model.run_line (explode line));
       if Buffer.length out > (1 lsl 20) then (print_string (Buffer.contents out); Buffer.clear out)
     done
   with End_of_file -> ());
  print_string (Buffer.contents out)
