(* L3: what a declared rule MEANS, written independently of the generated checks: the value
   stands in the stated relation to the bound (IEEE ordered comparison for floats: a NaN
   stands in no relation), and what the constructor must therefore return. *)
From NV Require Import Base.Util Base.IntTy Base.FloatBits Base.Float Base.Expr
     Macro.Surface Macro.Ast Sem.Value Sem.Eval.
Local Open Scope Z_scope.

Section WithLib.
  Variable lib : fnlib.

  Definition holds (d : decl) (v : validator) (x : value) : bool :=
    match d_family d, v, x with
    | FInt _ _, VLess b, VI z => z <? bval d b
    | FInt _ _, VLessOrEqual b, VI z => z <=? bval d b
    | FInt _ _, VGreater b, VI z => z >? bval d b
    | FInt _ _, VGreaterOrEqual b, VI z => z >=? bval d b
    | FFloat is64, VLess b, VF z => f_lt is64 z (bval d b)
    | FFloat is64, VLessOrEqual b, VF z => f_le is64 z (bval d b)
    | FFloat is64, VGreater b, VF z => f_gt is64 z (bval d b)
    | FFloat is64, VGreaterOrEqual b, VF z => f_ge is64 z (bval d b)
    | FFloat is64, VFinite, VF z => f_is_finite is64 z
    | FStr, VLenCharMax b, VS s => Z.of_nat (List.length s) <=? bval d b
    | FStr, VLenCharMin b, VS s => Z.of_nat (List.length s) >=? bval d b
    | FStr, VNotEmpty, VS s => match s with [] => false | _ => true end
    | FStr, VRegex r, VS s => l_regex lib r s
    | _, VPredicate f, _ => l_pred lib (fn_id f) x
    | _, _, _ => true
    end.

  (* the sanitized value satisfies every declared validator *)
  Definition spec_valid (d : decl) (x : value) : bool :=
    match d_validation d with
    | None => true
    | Some (RVStandard vs) => forallb (fun v => holds d v x) vs
    | Some (RVCustom w _) => match l_cust lib (fn_id w) x with None => true | Some _ => false end
    end.

  (* sanitizers applied in declaration order *)
  Definition spec_sanitize (d : decl) (raw : value) : value :=
    fold_left (fun x s => sanitizer_fn lib d s x) (d_sans d) raw.

  (* the error a rejection must report: the variant of the first violated validator *)
  Fixpoint first_violated (d : decl) (vs : list validator) (x : value) : option vkind :=
    match vs with
    | [] => None
    | v :: r => if holds d v x then first_violated d r x else Some (vkind_of v)
    end.

  (* what the canonical constructor must return *)
  Definition spec_construct (d : decl) (raw : value) : outcome :=
    let x := spec_sanitize d raw in
    match d_validation d with
    | None => OOk x
    | Some (RVStandard vs) =>
        match first_violated d vs x with None => OOk x | Some k => OErr (EVariant k) end
    | Some (RVCustom w _) =>
        match l_cust lib (fn_id w) x with None => OOk x | Some c => OErr (ECustom c) end
    end.

  (* IEEE comparisons are partial: a NaN operand compares with nothing.  [comparable d x]
     says that every bound comparison a float declaration performs on x is defined. *)
  Definition bound_of (v : validator) : option bound :=
    match v with
    | VGreater b | VGreaterOrEqual b | VLess b | VLessOrEqual b => Some b
    | _ => None
    end.

  Definition comparable (d : decl) (x : value) : bool :=
    match d_family d, x with
    | FFloat is64, VF z =>
        forallb (fun v => match bound_of v with
                          | Some b => match fcmp is64 z (bval d b) with Some _ => true | None => false end
                          | None => true end) (standard_validators d)
    | _, _ => true
    end.
End WithLib.
