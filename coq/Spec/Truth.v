(* L3: what an error sentence says, read literally, versus what the validator accepts. *)
From NV Require Import Base.Util Base.Float Macro.Ast Macro.Messages.
Local Open Scope Z_scope.

(* the constraint a relation word states about a value x (or a length) and the echoed bound *)
Definition stated_int (r : relword) (x b : Z) : bool :=
  match r with
  | RGreater => x >? b | RGreaterOrEqual => x >=? b
  | RLess => x <? b | RLessOrEqual => x <=? b
  | RAtMost => x <=? b | RAtLeast => x >=? b
  end.

Definition stated_float (is64 : bool) (r : relword) (x b : Z) : bool :=
  match r with
  | RGreater => f_gt is64 x b | RGreaterOrEqual => f_ge is64 x b
  | RLess => f_lt is64 x b | RLessOrEqual => f_le is64 x b
  | RAtMost => f_le is64 x b | RAtLeast => f_ge is64 x b
  end.

(* what the validator of that kind accepts *)
Definition accepts_int (k : vkind) (x b : Z) : bool :=
  match k with
  | KGreater => x >? b | KGreaterOrEqual => x >=? b | KLess => x <? b | KLessOrEqual => x <=? b
  | KLenCharMax => x <=? b | KLenCharMin => x >=? b
  | _ => true
  end.

Definition accepts_float (is64 : bool) (k : vkind) (x b : Z) : bool :=
  match k with
  | KGreater => f_gt is64 x b | KGreaterOrEqual => f_ge is64 x b
  | KLess => f_lt is64 x b | KLessOrEqual => f_le is64 x b
  | _ => true
  end.
