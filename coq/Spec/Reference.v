(* L3 for C08: the declarative rule book, written from the documentation and from the
   property's own list of what must be refused -- not from the macro's control flow.  It is a
   predicate on what the declaration SAYS (the parsed attribute: ordered sanitizers,
   validators with their bounds, derive list, flags), on the struct item and on the features. *)
From NV Require Import Base.Util Base.IntTy Base.FloatBits Base.Float Base.Expr
     Macro.Surface Macro.Ast Macro.Parse.
From Flocq Require Import IEEE754.Bits.
Local Open Scope string_scope.
Local Open Scope list_scope.

Fixpoint count_occ_b {X} (eqb : X -> X -> bool) (x : X) (l : list X) : nat :=
  match l with [] => O | y :: r => (if eqb x y then 1 else 0) + count_occ_b eqb x r end%nat.

Definition each_once {X} (eqb : X -> X -> bool) (l : list X) : bool :=
  forallb (fun x => Nat.eqb (count_occ_b eqb x l) 1) l.

(* ---- the item ---- *)
Definition ref_item_ok (it : item) : bool :=
  String.eqb (it_kind it) "tuple" &&
  match it_fields it with [] => false | f :: _ => String.eqb (f_vis f) "" end &&
  forallb (String.eqb "doc") (it_attrs it).

(* ---- sanitizers ---- *)
Definition ref_sanitizers_ok (ss : list sanitizer) : bool :=
  each_once skind_eqb (map skind_of ss) &&
  negb (existsb (skind_eqb KLowercase) (map skind_of ss) && existsb (skind_eqb KUppercase) (map skind_of ss)).

(* ---- validators: each kind once; literal bounds must leave at least one value ---- *)
Definition lits (k : vkind) (vs : list validator) : list Z :=
  flat_map (fun v => match v, k with
                     | VGreater (BLit x), KGreater | VGreaterOrEqual (BLit x), KGreaterOrEqual
                     | VLess (BLit x), KLess | VLessOrEqual (BLit x), KLessOrEqual
                     | VLenCharMin (BLit x), KLenCharMin | VLenCharMax (BLit x), KLenCharMax => [x]
                     | _, _ => [] end) vs.

(* next float above (for "is there a float strictly between two bounds") *)
Definition f_succ (is64 : bool) (x : Z) : Z :=
  if is64 then bits_of_b64 (b64_succ (b64_of_bits x)) else bits_of_b32 (b32_succ (b32_of_bits x)).

Definition ref_literal_bounds_ok (fam : family) (vs : list validator) : bool :=
  match fam with
  | FInt _ _ =>
      (* an integer x with  g < x, ge <= x, x < l, x <= le  for all literal bounds *)
      let lows := map (Z.add 1) (lits KGreater vs) ++ lits KGreaterOrEqual vs in
      let highs := map (fun b => Z.sub b 1) (lits KLess vs) ++ lits KLessOrEqual vs in
      forallb (fun lo => forallb (fun hi => Z.leb lo hi) highs) lows
  | FFloat is64 =>
      forallb (fun lo => forallb (fun hi => f_lt is64 (f_succ is64 lo) hi) (lits KLess vs) &&
                         forallb (fun hi => f_lt is64 lo hi) (lits KLessOrEqual vs)) (lits KGreater vs) &&
      forallb (fun lo => forallb (fun hi => f_lt is64 lo hi) (lits KLess vs) &&
                         forallb (fun hi => f_le is64 lo hi) (lits KLessOrEqual vs)) (lits KGreaterOrEqual vs)
  | FStr =>
      forallb (fun mn => forallb (fun mx => Z.leb mn mx) (lits KLenCharMax vs)) (lits KLenCharMin vs)
  | FAny _ => true
  end.

(* a lower (upper) bound is specified by EITHER greater OR greater_or_equal (less / less_or_equal) *)
Definition side_count (ks : list vkind) (vs : list validator) : nat :=
  List.length (filter (fun v => existsb (vkind_eqb (vkind_of v)) ks) vs).

Definition ref_validators_ok (fam : family) (vs : list validator) (regex_valid : list N -> bool) : bool :=
  each_once vkind_eqb (map vkind_of vs) &&
  Nat.leb (side_count [KGreater; KGreaterOrEqual] vs) 1 &&
  Nat.leb (side_count [KLess; KLessOrEqual] vs) 1 &&
  ref_literal_bounds_ok fam vs &&
  forallb (fun v => match v with VRegex (RLit s) => regex_valid s | _ => true end) vs.

(* ---- derivable traits ---- *)
Definition ref_trait_ok (fam : family) (has_val has_finite : bool) (ts : list trait) (t : trait) : bool :=
  let has x := has_trait x ts in
  match t with
  | TrCopy => negb (is_str fam) && has TrClone
  | TrEq => has TrPartialEq && (if is_float fam then has_finite else true)
  | TrPartialOrd => has TrPartialEq
  | TrOrd => has TrPartialOrd && has TrEq && (if is_float fam then has_finite else true)
  | TrHash => negb (is_float fam)
  | TrFrom => negb has_val && negb (has TrTryFrom)
  | TrIntoIterator => match fam with FAny _ => true | _ => false end
  | TrJsonSchema => match fam with FAny _ => false | _ => true end
  | _ => true
  end.

Definition ref_arbitrary_ok (fam : family) (p : parsed) : bool :=
  match p_validation p with
  | None => true
  | Some (RVCustom _ _) => false
  | Some (RVStandard vs) =>
      match fam with
      | FAny _ => false
      | _ =>
          negb (existsb (fun v => match v with VPredicate _ | VRegex _ => true | _ => false end) vs) &&
          (match fam with
           | FInt _ _ => true
           | _ => negb (existsb (fun s => match s with SWith _ => true | _ => false end) (p_sans p))
           end)
      end
  end.

Definition ref_ok (ft : features) (it : item) (fam : family) (p : parsed) (regex_valid : list N -> bool) : bool :=
  let vs := match p_validation p with Some (RVStandard vs) => vs | _ => [] end in
  let has_val := match p_validation p with Some _ => true | None => false end in
  let has_fin := existsb (fun v => match v with VFinite => true | _ => false end) vs in
  let ts := p_derives p in
  ref_item_ok it &&
  ref_sanitizers_ok (p_sans p) &&
  ref_validators_ok fam vs regex_valid &&
  forallb (ref_trait_ok fam has_val has_fin ts) ts &&
  (if has_trait TrDefault ts then match p_default p with Some _ => true | None => false end else true) &&
  (if has_trait TrArbitrary ts then ref_arbitrary_ok fam p else true).

(* which rule of the book a declaration breaks (for reporting) *)
Definition ref_verdict (ft : features) (it : item) (fam : family) (p : parsed) (regex_valid : list N -> bool) : string :=
  let vs := match p_validation p with Some (RVStandard vs) => vs | _ => [] end in
  let has_val := match p_validation p with Some _ => true | None => false end in
  let has_fin := existsb (fun v => match v with VFinite => true | _ => false end) vs in
  let ts := p_derives p in
  if negb (ref_item_ok it) then "0:item"
  else if negb (ref_sanitizers_ok (p_sans p)) then "0:sanitizers"
  else if negb (each_once vkind_eqb (map vkind_of vs)) then "0:duplicate_validator"
  else if negb (Nat.leb (side_count [KGreater; KGreaterOrEqual] vs) 1 && Nat.leb (side_count [KLess; KLessOrEqual] vs) 1)
       then "0:two_bounds_of_a_side"
  else if negb (ref_literal_bounds_ok fam vs) then "0:literal_bounds"
  else if negb (forallb (fun v => match v with VRegex (RLit s) => regex_valid s | _ => true end) vs) then "0:regex"
  else if negb (forallb (ref_trait_ok fam has_val has_fin ts) ts) then "0:traits"
  else if has_trait TrDefault ts && match p_default p with Some _ => false | None => true end then "0:default"
  else if has_trait TrArbitrary ts && negb (ref_arbitrary_ok fam p) then "0:arbitrary"
  else "1".

Lemma ref_verdict_ok (ft : features) (it : item) (fam : family) (p : parsed) (rv : list N -> bool) :
  ref_verdict ft it fam p rv = "1" <-> ref_ok ft it fam p rv = true.
Proof.
  unfold ref_verdict, ref_ok, ref_validators_ok.
  destruct (ref_item_ok it); cbn [negb andb]; [|split; discriminate].
  destruct (ref_sanitizers_ok (p_sans p)); cbn [negb andb]; [|split; discriminate].
  destruct (each_once vkind_eqb _); cbn [negb andb]; [|split; discriminate].
  destruct (Nat.leb (side_count [KGreater; KGreaterOrEqual] _) 1); cbn [negb andb]; [|split; discriminate].
  destruct (Nat.leb (side_count [KLess; KLessOrEqual] _) 1); cbn [negb andb]; [|split; discriminate].
  destruct (ref_literal_bounds_ok fam _); cbn [negb andb]; [|split; discriminate].
  destruct (forallb (fun v => match v with VRegex (RLit s) => rv s | _ => true end) _); cbn [negb andb]; [|split; discriminate].
  destruct (forallb (ref_trait_ok fam _ _ _) _); cbn [negb andb]; [|split; discriminate].
  destruct (has_trait TrDefault (p_derives p)); cbn [andb].
  - destruct (p_default p); cbn [andb]; [|split; discriminate].
    destruct (has_trait TrArbitrary (p_derives p)); cbn [andb]; [|split; reflexivity].
    destruct (ref_arbitrary_ok fam p); cbn; split; congruence.
  - destruct (has_trait TrArbitrary (p_derives p)); cbn [andb]; [|split; reflexivity].
    destruct (ref_arbitrary_ok fam p); cbn; split; congruence.
Qed.
