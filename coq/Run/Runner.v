(* The executable entry point shared by vm_compute (inside coqc) and the extracted OCaml
   driver: one input line = one case (features, surface declaration, operations), output =
   one line per operation. *)
From NV Require Import Base.Util Base.Sexp Base.IntTy Base.FloatBits Base.Float Base.Expr
     Macro.Surface Macro.Ast Macro.Parse Macro.Validate Macro.Messages Macro.Inventory Macro.GenTests
     Sem.Guard Sem.Value Sem.Eval Sem.Conv Sem.Text Sem.Json Sem.MsgPack Sem.Bytes Sem.ArbInt Sem.ArbStr Sem.ArbStrDecide Sem.ArbFloat Sem.ArbFloatDecide Sem.Order Spec.GuardSpec Spec.Reference Run.Lib Run.Decode.
From NV.Unicode Require UnicodeData UStr.
Local Open Scope string_scope.

Definition the_lib (d : decl) : fnlib :=
  let is64 := match d_family d with FFloat b => b | _ => true end in
  {| l_san := san is64; l_pred := pred is64; l_cust := cust is64; l_regex := regex_match;
     l_trim := UStr.u_trim; l_lower := UStr.u_lower; l_upper := UStr.u_upper |}.

Definition dec_opt_value (x : sexp) : option (option value) :=
  match x with
  | A "none" => Some None
  | _ => do v <- dec_value x; Some (Some v)
  end.

(* JSON white space around a document: space, \t, \n, \r *)
Definition json_ws (c : N) : bool := (N.eqb c 32 || N.eqb c 9 || N.eqb c 10 || N.eqb c 13)%bool.
Fixpoint drop_ws (l : list N) : list N :=
  match l with
  | c :: r => if json_ws c then drop_ws r else l
  | [] => []
  end.
Definition json_trim (l : list N) : list N := rev (drop_ws (rev (drop_ws l))).

Definition run_op (d : decl) (op : sexp) : string :=
  let lib := the_lib d in
  match op with
  | L [A "try_new"; v] =>
      match dec_value v with Some v => pr_outcome (op_try_new lib d v) | None => "bad_value" end
  | L [A "new"; v] =>
      match dec_value v with Some v => pr_outcome (op_new lib d v) | None => "bad_value" end
  | L [A "try_from"; v] =>
      match dec_value v with Some v => pr_outcome (op_try_from lib d v) | None => "bad_value" end
  | L [A "from"; v] =>
      match dec_value v with Some v => pr_outcome (op_from lib d v) | None => "bad_value" end
  | L [A "from_str_s"; v] =>
      match dec_value v with
      | Some (VS s) => pr_outcome (op_from_str_string lib d s)
      | _ => "bad_value" end
  | L [A "from_str"; v] =>
      match dec_opt_value v with Some i => pr_outcome (op_from_str lib d i) | None => "bad_value" end
  | L [A "from_str_t"; v] =>
      match dec_value v with
      | Some (VS s) => pr_outcome (op_from_str_text lib d s)
      | _ => "bad_value" end
  | L [A "show_i"; v] =>
      match dec_value v with
      | Some v =>
          match construct lib d v with
          | OOk x => match op_display_int d x with Some s => pr_value (VS s) | None => "na" end
          | _ => "rejected"
          end
      | None => "bad_value" end
  | L [A "de_json_t"; v] =>
      (* the JSON document itself: the model reads it (Sem/Json) for String and integer newtypes *)
      match dec_value v with
      | Some (VS doc) =>
          match d_family d with
          | FStr | FInt _ _ => pr_outcome (op_deserialize lib d (json_de_inner (d_family d) (json_trim doc)))
          | _ => "na"
          end
      | _ => "bad_value" end
  | L (A "de_mp_t" :: bs) =>
      (* the MessagePack document itself: the model reads it (Sem/MsgPack) for String newtypes and for
         integer newtypes up to 64 bits *)
      match omap as_N bs with
      | Some doc =>
          match d_family d with
          | FStr => pr_outcome (op_deserialize lib d (mp_de_inner (d_family d) doc))
          | FInt _ t => if (bits t <=? 64)%Z then pr_outcome (op_deserialize lib d (mp_de_inner (d_family d) doc)) else "na"
          | _ => "na"
          end
      | None => "bad_value" end
  | L [A "ser_mp_t"; v] =>
      match dec_value v with
      | Some v =>
          if has_trait TrSerialize (d_traits d) then
            match d_family d, construct lib d v with
            | FStr, OOk x => pr_list "b" (map string_of_N (mp_ser_inner x))
            | FInt _ t, OOk x => if (bits t <=? 64)%Z then pr_list "b" (map string_of_N (mp_ser_inner x)) else "na"
            | (FStr | FInt _ _), _ => "rejected"
            | _, _ => "na"
            end
          else "na"
      | None => "bad_value" end
  | L [A "ser_json_t"; v] =>
      match dec_value v with
      | Some v =>
          if has_trait TrSerialize (d_traits d) then
            match d_family d, construct lib d v with
            | FStr, OOk x | FInt _ _, OOk x => pr_value (VS (json_ser_inner x))
            | (FStr | FInt _ _), _ => "rejected"
            | _, _ => "na"
            end
          else "na"
      | None => "bad_value" end
  | L [A "de"; v] =>
      match dec_opt_value v with Some i => pr_outcome (op_deserialize lib d i) | None => "bad_value" end
  | L [A "default"] => pr_outcome (op_default lib d)
  | L (A "arb" :: bs) =>
      match omap as_Z bs with
      | Some bs =>
          if has_trait TrArbitrary (d_traits d) then
            pr_outcome (match d_family d with
                        | FInt _ _ => arb_int lib d bs
                        | FStr => arb_str lib d bs
                        | FFloat _ => arb_float lib d bs
                        | FAny _ => ONotAvail
                        end)
          else "na"
      | None => "bad_value" end
  | L [A "cmp2"; v1; v2] =>
      match dec_value v1, dec_value v2 with
      | Some a, Some b =>
          match construct lib d a, construct lib d b with
          | OOk x, OOk y =>
              let fam := d_family d in
              "eq=" ++ string_of_bool (value_eq fam x y) ++
              " pcmp=" ++ match value_pcmp fam x y with
                          | Some Lt => "L" | Some Eq => "E" | Some Gt => "G" | None => "N" end ++
              " cmp=" ++ match value_cmp fam x y with
                         | CmpOk Lt => "L" | CmpOk Eq => "E" | CmpOk Gt => "G" | CmpPanic => "P" end
          | _, _ => "rejected"
          end
      | _, _ => "bad_value" end
  | L [A "msgs"] =>
      concat_with " | " (map (fun v => vkind_name (vkind_of v) ++ "=" ++ msg_text (d_family d) (d_name d) (vkind_of v))
                             (standard_validators d))
  | L [A "inventory"] =>
      concat_with " ;; " (map pr_fn (gen_fns {| ft_std := true; ft_serde := true; ft_regex := true; ft_arbitrary := true;
                                                ft_new_unchecked := true; ft_schemars := false |} d) ++
                          map (fun u => String.append "use|" (String.append (fst u) (String.append "|" (snd u)))) (gen_uses d))%list
  | L [A "gen_tests"] =>
      concat_with ";" (map (fun t : string * bool => String.append (fst t) (if snd t then "=ok" else "=FAILED")) (gen_tests lib d))
  | L [A "arb_range"] =>
      match arb_boundary d with
      | Some (lo, hi) => "range " ++ string_of_Z lo ++ " " ++ string_of_Z hi
      | None => "range none"
      end
  | L [A "arb_decide"] =>
      match d_family d with
      | FStr =>
          match arb_str_decide d with
          | SVTotal => "total"
          | SVPanicsOn bs => "panics " ++ pr_list "b" (map string_of_Z bs)
          | SVUnknown => "unknown"
          end
      | _ =>
          match arb_float_decide_ext d with
          | AVTotal => "total"
          | AVPanicsOn bs => "panics " ++ pr_list "b" (map string_of_Z bs)
          | AVUnknown => "unknown"
          end
      end
  | L [A "spec"; v] =>
      match dec_value v with
      | Some v => pr_outcome (spec_construct lib d v) ++ " " ++
                  string_of_bool (comparable d (spec_sanitize lib d v))
      | None => "bad_value" end
  | _ => "bad_op"
  end.

Fixpoint number_from (id : string) (k : nat) (l : list string) : list string :=
  match l with
  | [] => []
  | s :: r => (id ++ "." ++ string_of_Z (Z.of_nat k) ++ " " ++ s) :: number_from id (S k) r
  end.

Definition run_case (x : sexp) : list string :=
  match x with
  | L (A "case" :: A id :: ft :: sd :: ops) =>
      match dec_features ft, dec_sdecl sd with
      | Some ft, Some sd =>
          let rf := match parse_meta (sd_item sd) with
                    | Accept fam =>
                        match parse_attrs ft fam (sd_attr sd) with
                        | Accept p =>
                            ref_verdict ft (sd_item sd) fam p
                              (fun s => match regex_valid regex_lib s with Some true => true | _ => false end)
                        | Reject _ => "-"
                        end
                    | Reject _ => "0:item"
                    end in
          match full_verdict ft sd with
          | Accept d => (id ++ " accept ref=" ++ rf) :: number_from id 0 (map (run_op d) ops)
          | Reject c => [id ++ " reject " ++ c ++ " ref=" ++ rf]
          end
      | _, _ => [id ++ " bad_case"]
      end
  | _ => ["? bad_line"]
  end.

Definition run_line (s : string) : list string :=
  match parse_sexp s with
  | Some x => run_case x
  | None => ["? bad_sexp"]
  end.
