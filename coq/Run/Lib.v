(* The fixed library of user-supplied functions used by the correspondence corpus.  The same
   functions exist in Rust in harness/runner_lib.rs; theorems never depend on this file (they
   quantify over every [fnlib]). *)
From NV Require Import Base.Util Base.FloatBits Base.Float Macro.Ast Sem.Value.
Local Open Scope Z_scope.

Definition is64_of (bits : Z) (hint64 : bool) := hint64.

(* floats: the library needs the width; it is recovered from the declaration by the runner,
   so library functions take it as a parameter *)
Section Lib.
  Variable is64 : bool.

  Definition f_const (x32 x64 : Z) : Z := if is64 then x64 else x32.
  Definition F0 := 0.
  Definition F100 := f_const 1120403456 4636737291354636288.   (* 100.0 *)
  Definition F7 := f_const 1088421888 4619567317775286272.     (* 7.0 *)

  Definition san (id : N) (x : value) : value :=
    match x with
    | VI z =>
        match id with
        | 0%N => VI (Z.max 0 (Z.min 100 z))             (* clamp(0, 100) *)
        | 1%N => VI (Z.quot z 2)                        (* v / 2 *)
        | _ => VI (Z.lxor z 1)                          (* v ^ 1 *)
        end
    | VF b =>
        match id with
        | 0%N => VF (if f_lt is64 b F0 then F0 else if f_gt is64 b F100 then F100 else b) (* clamp *)
        | 1%N => VF (fb_neg is64 b)
        | _ => VF (fb_abs is64 b)
        end
    | VS s =>
        match id with
        | 0%N => VS (s ++ [33%N])                                        (* push '!' *)
        | 1%N => VS (map (fun c => if (97 <=? c)%N && (c <=? 122)%N then (c - 32)%N else c) s)
        | _ => VS (firstn 3 s)                                           (* first 3 chars *)
        end
    | VL l =>
        match id with
        | 0%N => VL (rev l)
        | 1%N => VL (firstn 3 l)
        | _ => VL (l ++ [0])
        end
    end.

  Definition pred (id : N) (x : value) : bool :=
    match x with
    | VI z => match id with
              | 0%N => Z.rem z 2 =? 0
              | 1%N => negb (z =? 7)
              (* `12 % *v == 0`: PARTIAL in Rust (division by zero panics); the corpus writes it only behind a
                 bound that refuses 0, where a faithful constructor never calls it on 0 *)
              | _ => if z =? 0 then false else Z.rem 12 z =? 0
              end
    | VF b => match id with 0%N => negb (f_eq is64 b F7) | _ => negb (fb_sign is64 b) end
    | VS s => match id with
              | 0%N => existsb (N.eqb 64) s
              | 1%N => Nat.even (List.length s)
              (* `v.as_bytes()[0] != b'x'`: PARTIAL in Rust (it panics on the empty string); the corpus
                 writes it only behind `not_empty`, where a faithful constructor never calls it on "" *)
              | _ => match s with [] => false | c :: _ => negb (N.eqb c 120) end
              end
    | VL l => match id with
              | 0%N => match l with [] => false | _ => true end
              | _ => forallb (fun z => 0 <=? z) l
              end
    end.

  Definition cust (id : N) (x : value) : option Z :=
    match x with
    | VI z => if Z.rem z 3 =? 0 then Some (Z.rem z 5) else None
    | VF b => if f_is_nan is64 b then Some 1 else if f_lt is64 b F0 then Some 2 else None
    | VS s => match s with 120%N :: _ => Some (Z.of_nat (List.length s)) | _ => None end
    | VL l => if 3 <? Z.of_nat (List.length l) then Some (Z.of_nat (List.length l)) else None
    end.
End Lib.

(* the three library regexes, by literal text or by the name of the static *)
Definition regex_id (r : regexdef) : option N :=
  match r with
  | RLit [94; 91; 97; 45; 122; 93; 43; 36]%N => Some 0%N
  | RLit [64]%N => Some 1%N
  | RLit [94; 46; 123; 50; 44; 52; 125; 36]%N => Some 2%N
  | RLit [98; 123; 50; 125]%N => Some 3%N                 (* b{2} : a counted repetition, unanchored *)
  | RLit [40; 63; 105; 41; 94; 107; 91; 48; 45; 57; 93; 43; 36]%N => Some 4%N   (* (?i)^k[0-9]+$ *)
  | RPath "RE0" => Some 0%N
  | RPath "RE1" => Some 1%N
  | RPath "RE2" => Some 2%N
  | RPath "RE3" => Some 3%N
  | RPath "RE4" => Some 4%N
  | RPath "RE5" => Some 4%N        (* the same regex, built with RegexBuilder::case_insensitive(true) *)
  | _ => None
  end.

Definition regex_match (r : regexdef) (s : list N) : bool :=
  match regex_id r with
  | Some 0%N => negb (match s with [] => true | _ => false end) &&
                forallb (fun c => (97 <=? c)%N && (c <=? 122)%N) s
  | Some 1%N => existsb (N.eqb 64) s
  | Some 2%N => (2 <=? List.length s)%nat && (List.length s <=? 4)%nat && forallb (fun c => negb (N.eqb c 10)) s
  | Some 3%N => (fix two (l : list N) : bool :=
                   match l with
                   | a :: ((b :: _) as r) => (N.eqb a 98 && N.eqb b 98) || two r
                   | _ => false
                   end) s
  (* Unicode-aware case folding (the crate's default): k also matches K and U+212A KELVIN SIGN;
     [0-9] stays the ASCII digits *)
  | Some 4%N => match s with
                | c :: ((_ :: _) as ds) => (N.eqb c 107 || N.eqb c 75 || N.eqb c 8490) &&
                                           forallb (fun c => (48 <=? c)%N && (c <=? 57)%N) ds
                | _ => false
                end
  | _ => false
  end.
