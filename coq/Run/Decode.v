(* Decoding of the harness wire format (S-expressions) into surface declarations, values and
   operations; printing of outcomes.  Trusted glue, exercised on every correspondence run. *)
From NV Require Import Base.Util Base.Sexp Base.IntTy Base.Expr Macro.Surface Macro.Ast Sem.Value.
Local Open Scope string_scope.

Definition unatom (s : string) : string := if String.eqb s "_" then "" else s.
Definition as_str (x : sexp) : option string := do s <- as_atom x; Some (unatom s).

Definition dec_binop (s : string) : option binop :=
  if String.eqb s "add" then Some OAdd else if String.eqb s "sub" then Some OSub
  else if String.eqb s "mul" then Some OMul else if String.eqb s "div" then Some ODiv
  else if String.eqb s "rem" then Some ORem else if String.eqb s "shl" then Some OShl
  else if String.eqb s "shr" then Some OShr else if String.eqb s "and" then Some OAnd
  else if String.eqb s "or" then Some OOr else if String.eqb s "xor" then Some OXor else None.

Fixpoint dec_expr (x : sexp) : option expr :=
  match x with
  | L [A "lit"; fl; suf; rad; iv; f32; f64] =>
      do fl <- as_bool fl; do suf <- as_str suf; do rad <- as_bool rad;
      do iv <- as_Z iv; do f32 <- as_Z f32; do f64 <- as_Z f64;
      Some (ELit {| l_float := fl; l_suffix := if String.eqb suf "" then None else Some suf;
                    l_radix := rad; l_int := iv; l_f32 := f32; l_f64 := f64 |})
  | L [A "k"; n] => do n <- as_str n; Some (EConst n)
  | L [A "neg"; a] => do a <- dec_expr a; Some (ENeg a)
  | L [A "not"; a] => do a <- dec_expr a; Some (ENot a)
  | L [A "par"; a] => do a <- dec_expr a; Some (EParen a)
  | L [A "bin"; op; a; b] =>
      do op <- as_atom op; do op <- dec_binop op; do a <- dec_expr a; do b <- dec_expr b;
      Some (EBin op a b)
  | L (A "s" :: cs) => do cs <- omap as_N cs; Some (EStr cs)
  | L (A "l" :: zs) => do zs <- omap as_Z zs; Some (EList zs)
  | _ => None
  end.

Definition dec_fnform (s : string) : option fnform :=
  if String.eqb s "p" then Some FPath
  else if String.eqb s "c00" then Some (FClosure false false)
  else if String.eqb s "c10" then Some (FClosure true false)
  else if String.eqb s "c01" then Some (FClosure false true)
  else if String.eqb s "c11" then Some (FClosure true true)
  else None.

Fixpoint dec_tok (x : sexp) : option tok :=
  match x with
  | A "c" => Some TComma
  | A "e" => Some TEq
  | L [A "id"; s] => do s <- as_str s; Some (TId s)
  | L (A "g" :: ts) =>
      do ts <- (fix go (l : list sexp) : option (list tok) :=
                  match l with
                  | [] => Some []
                  | t :: r => do t' <- dec_tok t; do r' <- go r; Some (t' :: r')
                  end) ts;
      Some (TG ts)
  | L (A "str" :: cs) => do cs <- omap as_N cs; Some (TStr cs)
  | L [A "x"; e] => do e <- dec_expr e; Some (TExpr e)
  | L [A "fn"; id; form] => do id <- as_N id; do f <- as_atom form; do f <- dec_fnform f;
                            Some (TFn {| fn_id := id; fn_form := f |})
  | L [A "path"; s] => do s <- as_str s; Some (TPath s)
  | _ => None
  end.

Definition dec_field (x : sexp) : option field :=
  match x with
  | L [v; t] => do v <- as_str v; do t <- as_str t; Some {| f_vis := v; f_ty := t |}
  | _ => None
  end.

Definition dec_gparam (x : sexp) : option gparam :=
  match x with
  | L (n :: bs) => do n <- as_str n; do bs <- omap as_str bs; Some {| g_name := n; g_bounds := bs |}
  | _ => None
  end.

Definition dec_item (x : sexp) : option item :=
  match x with
  | L [A "item"; k; v; n; L (A "gen" :: gs); L (A "attrs" :: ats); L (A "fields" :: fs)] =>
      do k <- as_str k; do v <- as_str v; do n <- as_str n;
      do gs <- omap dec_gparam gs; do ats <- omap as_str ats; do fs <- omap dec_field fs;
      Some {| it_kind := k; it_vis := v; it_name := n; it_generics := gs; it_attrs := ats;
              it_fields := fs |}
  | _ => None
  end.

Definition dec_env_entry (x : sexp) : option (string * (string * Z)) :=
  match x with
  | L [n; t; v] => do n <- as_str n; do t <- as_str t; do v <- as_Z v; Some (n, (t, v))
  | _ => None
  end.

Definition dec_sdecl (x : sexp) : option sdecl :=
  match x with
  | L [A "sd"; it; L (A "toks" :: ts); L (A "env" :: es)] =>
      do it <- dec_item it; do ts <- omap dec_tok ts; do es <- omap dec_env_entry es;
      Some {| sd_item := it; sd_attr := ts; sd_env := es |}
  | _ => None
  end.

Definition dec_features (x : sexp) : option features :=
  match x with
  | L [A "ft"; a; b; c; d; e; f] =>
      do a <- as_bool a; do b <- as_bool b; do c <- as_bool c; do d <- as_bool d;
      do e <- as_bool e; do f <- as_bool f;
      Some {| ft_std := a; ft_serde := b; ft_regex := c; ft_arbitrary := d;
              ft_new_unchecked := e; ft_schemars := f |}
  | _ => None
  end.

Definition dec_value (x : sexp) : option value :=
  match x with
  | L [A "i"; z] => do z <- as_Z z; Some (VI z)
  | L [A "f"; z] => do z <- as_Z z; Some (VF z)
  | L (A "s" :: cs) => do cs <- omap as_N cs; Some (VS cs)
  | L (A "l" :: zs) => do zs <- omap as_Z zs; Some (VL zs)
  | _ => None
  end.

(* printing *)
Definition pr_list (tag : string) (l : list string) : string :=
  "(" ++ concat_with " " (tag :: l) ++ ")".
Definition pr_value (v : value) : string :=
  match v with
  | VI z => pr_list "i" [string_of_Z z]
  | VF z => pr_list "f" [string_of_Z z]
  | VS s => pr_list "s" (map string_of_N s)
  | VL l => pr_list "l" (map string_of_Z l)
  end.

Definition vkind_name (k : vkind) : string :=
  match k with
  | KGreater => "GreaterViolated" | KGreaterOrEqual => "GreaterOrEqualViolated"
  | KLess => "LessViolated" | KLessOrEqual => "LessOrEqualViolated"
  | KPredicate => "PredicateViolated" | KFinite => "FiniteViolated"
  | KLenCharMin => "LenCharMinViolated" | KLenCharMax => "LenCharMaxViolated"
  | KNotEmpty => "NotEmptyViolated" | KRegex => "RegexViolated"
  end.

Definition pr_outcome (o : outcome) : string :=
  match o with
  | OOk v => "ok " ++ pr_value v
  | OErr (EVariant k) => "err " ++ vkind_name k
  | OErr (ECustom c) => "errc " ++ string_of_Z c
  | OParseErr => "parse_err"
  | OPanic => "panic"
  | OArbErr => "arb_err"
  | ONotAvail => "na"
  end.
