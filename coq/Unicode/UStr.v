(* Executable model of Rust's str::trim, str::to_lowercase and
   str::to_uppercase over Unicode scalar values.  A string is a [list N] of
   code points.  All tables come from UnicodeData.v, which is generated from
   the Rust std of the build machine (see gen_unicode.py). *)
From Coq Require Import NArith List Bool.
From NV.Unicode Require Import UnicodeData.
Import ListNotations.
Local Open Scope N_scope.

(* ------------------------------------------------------------------ *)
(* Range sets                                                          *)

Definition in_range (c : N) (r : N * N) : bool :=
  (fst r <=? c) && (c <=? snd r).

(* Reference semantics: membership in some range. *)
Definition in_ranges (rs : list (N * N)) (c : N) : bool :=
  existsb (in_range c) rs.

(* What the model runs: the same scan with an early exit, valid because the
   generated range lists are sorted and disjoint ([in_ranges_sorted_ok] and
   [u_is_ws_spec] etc. in UnicodeLemmas.v). *)
Fixpoint in_ranges_sorted (rs : list (N * N)) (c : N) : bool :=
  match rs with
  | [] => false
  | r :: rest =>
      if c <? fst r then false
      else if c <=? snd r then true
      else in_ranges_sorted rest c
  end.

(* ------------------------------------------------------------------ *)
(* Association tables: reference semantics [assoc] (first match of a
   linear scan) and a binary trie on the bits of the key used for the
   actual lookups.  [tget_of_list] (UnicodeLemmas.v) relates the two.   *)

Section Assoc.
  Context {A : Type}.

  Fixpoint assoc (k : N) (l : list (N * A)) : option A :=
    match l with
    | [] => None
    | (k', v) :: r => if k =? k' then Some v else assoc k r
    end.

  Inductive trie : Type :=
  | TLeaf : trie
  | TNode : trie -> option A -> trie -> trie.

  Fixpoint tget (t : trie) (p : positive) : option A :=
    match t with
    | TLeaf => None
    | TNode l o r =>
        match p with
        | xH => o
        | xO q => tget l q
        | xI q => tget r q
        end
    end.

  Fixpoint tset (t : trie) (p : positive) (v : A) : trie :=
    match p with
    | xH =>
        match t with
        | TLeaf => TNode TLeaf (Some v) TLeaf
        | TNode l _ r => TNode l (Some v) r
        end
    | xO q =>
        match t with
        | TLeaf => TNode (tset TLeaf q v) None TLeaf
        | TNode l o r => TNode (tset l q v) o r
        end
    | xI q =>
        match t with
        | TLeaf => TNode TLeaf None (tset TLeaf q v)
        | TNode l o r => TNode l o (tset r q v)
        end
    end.

  (* Code point c is stored under the positive key c+1.  Built with a right
     fold so that, like [assoc], the FIRST entry for a key wins. *)
  Definition tkey (c : N) : positive := N.succ_pos c.

  Fixpoint trie_of_list (l : list (N * A)) : trie :=
    match l with
    | [] => TLeaf
    | (k, v) :: r => tset (trie_of_list r) (tkey k) v
    end.

  Definition nget (t : trie) (c : N) : option A := tget t (tkey c).
End Assoc.
Arguments trie : clear implicits.

(* ------------------------------------------------------------------ *)
(* White space and trim                                                *)

Definition u_is_ws (c : N) : bool := in_ranges_sorted ws_ranges c.

Fixpoint drop_ws (s : list N) : list N :=
  match s with
  | [] => []
  | c :: r => if u_is_ws c then drop_ws r else s
  end.

Definition u_trim_start (s : list N) : list N := drop_ws s.
Definition u_trim_end (s : list N) : list N := rev (drop_ws (rev s)).

(* str::trim = trim_matches(char::is_whitespace) *)
Definition u_trim (s : list N) : list N := u_trim_end (u_trim_start s).

(* ------------------------------------------------------------------ *)
(* Per-character case mappings                                         *)

Definition lower_trie : trie (list N) := trie_of_list lower_table.
Definition upper_trie : trie (list N) := trie_of_list upper_table.

Definition lower1 (c : N) : list N :=
  match nget lower_trie c with Some v => v | None => [c] end.

Definition upper1 (c : N) : list N :=
  match nget upper_trie c with Some v => v | None => [c] end.

(* ------------------------------------------------------------------ *)
(* Context-sensitive mapping skeleton: [f rev_before c after]          *)

Fixpoint ctx_map (f : list N -> N -> list N -> list N)
         (rev_before : list N) (s : list N) : list N :=
  match s with
  | [] => []
  | c :: r => f rev_before c r ++ ctx_map f (c :: rev_before) r
  end.

(* ------------------------------------------------------------------ *)
(* to_uppercase                                                        *)

Definition u_upper (s : list N) : list N := flat_map upper1 s.

(* ------------------------------------------------------------------ *)
(* to_lowercase with the Final_Sigma rule of library/alloc/src/str.rs  *)

Definition SIGMA : N := 931.        (* U+03A3 GREEK CAPITAL LETTER SIGMA *)
Definition FINAL_SIGMA : N := 962.  (* U+03C2 GREEK SMALL LETTER FINAL SIGMA *)
Definition SMALL_SIGMA : N := 963.  (* U+03C3 GREEK SMALL LETTER SIGMA *)

Definition u_case_ignorable (c : N) : bool := in_ranges_sorted ignorable_ranges c.
(* Only ever consulted for characters that are not case-ignorable. *)
Definition u_cased (c : N) : bool := in_ranges_sorted cased_ranges c.

(* iter.skip_while(Case_Ignorable).next() -> Some(c) => Cased(c) | None => false *)
Fixpoint ignorable_then_cased (l : list N) : bool :=
  match l with
  | [] => false
  | c :: r => if u_case_ignorable c then ignorable_then_cased r else u_cased c
  end.

Definition is_word_final (rev_before after : list N) : bool :=
  ignorable_then_cased rev_before && negb (ignorable_then_cased after).

Definition lower_img (rev_before : list N) (c : N) (after : list N) : list N :=
  if c =? SIGMA
  then [if is_word_final rev_before after then FINAL_SIGMA else SMALL_SIGMA]
  else lower1 c.

Definition u_lower (s : list N) : list N := ctx_map lower_img [] s.
